"""Hypothesis strategies for Kafka message definitions (upstream JSON format), restricted to the constructs that
occur in the 3.9.0 definitions and their recombinations."""

from __future__ import annotations

from hypothesis import strategies as st

from .defspec import DATETIME_NAMES, ENTITY_TYPES, ERROR_NAMES, TIMEDELTA_NAMES, python_name

WORDS = ["Alpha", "Beta", "Gamma", "Delta", "Omega", "Zeta", "Kappa", "Sigma", "Theta", "Lamed", "Rho", "Tau", "Phi", "Chi", "Psi",
         "Node", "Leader", "Epoch", "Offset", "Count", "Value", "State", "Index", "Group", "Member", "Record", "Quota", "Token"]
ACRONYMS = ["ISR", "ID", "ACL", "TTL", "IP"]
BUILTIN_WORDS = ["Type", "Id", "Filter", "Max", "Min", "Hash", "Format", "Input", "Object", "Range"]
# words that are NOT builtins once lower-cased, although a capitalised spelling of them is (builtin names are case-sensitive)
NEAR_BUILTIN_WORDS = ["Warning", "Exception", "None", "True", "False", "Ellipsis"]
INT_TYPES = {"int8": (-(2**7), 2**7 - 1), "int16": (-(2**15), 2**15 - 1), "uint16": (0, 2**16 - 1), "int32": (-(2**31), 2**31 - 1),
             "uint32": (0, 2**32 - 1), "int64": (-(2**63), 2**63 - 1)}
OTHER_TYPES = ["bool", "float64", "string", "uuid", "bytes", "records"]


@st.composite
def field_name(draw, used: set) -> str:
    for _ in range(50):
        kind = draw(st.integers(0, 9))
        if kind == 0:
            name = draw(st.sampled_from(BUILTIN_WORDS + NEAR_BUILTIN_WORDS))
        elif kind == 1:
            name = draw(st.sampled_from(ACRONYMS)) + draw(st.sampled_from(WORDS))
        elif kind == 2:
            name = draw(st.sampled_from(WORDS)) + draw(st.sampled_from(ACRONYMS))
        elif kind == 3:
            name = "V" + str(draw(st.integers(0, 9))) + "And" + draw(st.sampled_from(WORDS))
        elif kind == 4 and draw(st.integers(0, 2)) == 0:
            name = draw(st.sampled_from(["N", "X", "Q", "K"]))  # single-letter names are well-formed too
        elif kind == 5 and draw(st.integers(0, 1)) == 0:
            # a lone acronym, some of which collide with Python builtins once lower-cased
            name = draw(st.sampled_from(["ID", "MAX", "MIN", "ALL", "HASH", "TYPE", "ISR", "IP", "TTL", "ANY", "SET"]))
        else:
            name = "".join(draw(st.lists(st.sampled_from(WORDS), min_size=1, max_size=3)))
        # uniqueness is required of the PYTHON names ("Id" and "ID" both become id_)
        if name not in used and python_name(name) not in used and not name.endswith("Ms"):
            used.add(name)
            used.add(python_name(name))
            return name
    raise AssertionError("name space exhausted")


def spell_range(lo: int, hi: int, top: int, draw) -> str:
    if hi == top and draw(st.booleans()):
        return f"{lo}+"
    if lo == hi:
        return str(lo)
    return f"{lo}-{hi}"


@st.composite
def sub_range(draw, versions: list[int], top: int, must_reach_top: bool = False):
    """A non-empty contiguous sub-range of `versions` -> (lo, hi)."""
    lo = draw(st.sampled_from(versions))
    hi = versions[-1] if must_reach_top else draw(st.sampled_from([v for v in versions if v >= lo]))
    return lo, hi


@st.composite
def int_default(draw, t: str):
    lo, hi = INT_TYPES[t]
    v = draw(st.one_of(st.sampled_from([0, 1, hi, lo, -1 if lo < 0 else 2]), st.integers(lo, hi)))
    spell = draw(st.integers(0, 7))
    if spell == 0 and v >= 0:
        return hex(v)
    if spell == 1:
        return v  # JSON number
    if spell == 4 and v >= 0:
        return "0x" + format(v, "X")  # upper-case hex digits
    if spell == 5 and v > 0:
        return "+" + str(v)  # Java's Integer.decode and Python's int(s, 0) both accept an explicit plus sign
    return str(v)


@st.composite
def fields(draw, versions: list[int], flex: set[int], top: int, depth: int, struct_names: set, commons: list, allow_special: bool = True,
           nullable_prim_arrays: bool = False):
    n = draw(st.integers(1, 5 if depth == 0 else 3))
    used: set = set()
    out = []
    next_tag = 0
    for _ in range(n):
        lo, hi = draw(st.one_of(st.just((versions[0], versions[-1])), sub_range(versions, top)))
        fvers = [v for v in versions if lo <= v <= hi]
        f: dict = {"versions": spell_range(lo, hi, top, draw)}
        shape = draw(st.integers(0, 12))
        special = None
        force_tag = False
        if shape <= 5:  # primitive
            if allow_special and draw(st.integers(0, 5)) == 0:
                special = draw(st.sampled_from(["td", "dt", "err"]))
            if special == "td":
                cands = sorted(n for n in TIMEDELTA_NAMES if n not in used and n != "timeoutMs" and n != "TimeoutMs" or (n == "TimeoutMs" and "TimeoutMs" not in used and "timeoutMs" not in used))
                if cands:
                    f["name"] = draw(st.sampled_from(cands))
                    used.add(f["name"])
                    f["type"] = draw(st.sampled_from(["int32", "int64"]))
                    if draw(st.booleans()):
                        f["default"] = draw(st.sampled_from(["0", "-1", "30000", 500]))
                else:
                    special = None
            elif special == "dt":
                cands = sorted(n for n in DATETIME_NAMES if n not in used)
                if cands:
                    f["name"] = draw(st.sampled_from(cands))
                    used.add(f["name"])
                    f["type"] = "int64"
                    if draw(st.booleans()):
                        f["default"] = "-1"
                else:
                    special = None
            elif special == "err":
                cands = sorted(n for n in ERROR_NAMES if n not in used)
                if cands:
                    f["name"] = draw(st.sampled_from(cands))
                    used.add(f["name"])
                    f["type"] = "int16"
                    if draw(st.integers(0, 3)) == 0:
                        f["default"] = draw(st.sampled_from(["0", "3", "-1"]))
                else:
                    special = None
            if special is None:
                f["name"] = draw(field_name(used))
                t = draw(st.sampled_from(list(INT_TYPES) + OTHER_TYPES + ["int32", "string", "string"]))
                f["type"] = t
                if t in INT_TYPES:
                    if draw(st.booleans()):
                        f["default"] = draw(int_default(t))
                    if draw(st.integers(0, 5)) == 0:
                        ets = [k for k, (_n, base) in ENTITY_TYPES.items() if base == t]
                        if ets:
                            f["entityType"] = draw(st.sampled_from(ets))
                elif t == "bool":
                    if draw(st.booleans()):
                        f["default"] = draw(st.sampled_from(["true", "false", "True", True, False]))
                elif t == "float64":
                    if draw(st.booleans()):
                        f["default"] = draw(st.sampled_from(["0.0", "1.5", 0.25, "-2.5", "1e3", "-0.0", "-0.0"]))
                elif t in ("string", "bytes", "records"):
                    if draw(st.integers(0, 2)) == 0:
                        nlo, nhi = draw(sub_range(fvers, top))
                        f["nullableVersions"] = spell_range(nlo, nhi, hi, draw)
                        if (nlo, nhi) == (lo, hi) and draw(st.booleans()):
                            f["default"] = "null"
                    if t == "string" and "default" not in f and draw(st.integers(0, 2)) == 0:
                        f["default"] = draw(st.sampled_from(["", "x", "default value", "it's", 'say "hi" now', "0x10",
                                                             # what source-text escaping must survive: backslash, non-ASCII, a character
                                                             # beyond the BMP, a control character, a brace
                                                             "back\\slash", "caf\u00e9 \u4e2d", "\U0001f680 launch", "tab\there", "{curly}"]))
                    if t == "string" and draw(st.integers(0, 5)) == 0:
                        f["entityType"] = draw(st.sampled_from([k for k, (_n, b) in ENTITY_TYPES.items() if b == "string"]))
        elif shape <= 7:  # primitive array
            f["name"] = draw(field_name(used))
            t = draw(st.sampled_from(["int32", "int64", "string", "int8", "uuid", "int16"]))
            f["type"] = "[]" + t
            if nullable_prim_arrays and draw(st.booleans()):
                # region of the open known finding K-C16-nullable-primitive-arrays (never generated by the main search)
                nlo, nhi = draw(sub_range(fvers, top))
                f["nullableVersions"] = spell_range(nlo, nhi, hi, draw)
            if draw(st.integers(0, 6)) == 0:
                ets = [k for k, (_n, base) in ENTITY_TYPES.items() if base == t]
                if ets:
                    f["entityType"] = draw(st.sampled_from(ets))
        elif shape == 12 and depth < 2:
            # an inline struct made only of primitives with explicit defaults, usually tagged: the shape for which a tagged
            # struct's implicit default is "the struct of its members' defaults" (ignorable or not)
            f["name"] = draw(field_name(used))
            sname = None
            for _ in range(20):
                if draw(st.booleans()):
                    cand = draw(st.sampled_from(["TopicData", "PartitionData", "ZedSharedItem"]))  # the pool shared across definitions
                else:
                    cand = "Dft" + draw(st.sampled_from(WORDS)) + draw(st.sampled_from(["Data", "Info", "Entry", "Item", "Spec"]))
                if cand not in struct_names:
                    sname = cand
                    struct_names.add(cand)
                    break
            if sname is None:
                f["type"] = "int32"
                out.append(f)
                continue
            f["type"] = sname
            members, mused = [], set()
            for _ in range(draw(st.integers(1, 3))):
                mt = draw(st.sampled_from(["int8", "int16", "int32", "int64", "uint16", "bool", "float64", "string"]))
                m = {"name": draw(field_name(mused)), "type": mt, "versions": spell_range(lo, hi, top, draw)}
                if mt in INT_TYPES:
                    m["default"] = draw(int_default(mt))
                elif mt == "bool":
                    m["default"] = draw(st.sampled_from(["true", "false"]))
                elif mt == "float64":
                    m["default"] = draw(st.sampled_from(["0.0", "1.5", "-2.5", "-0.0"]))
                else:
                    m["default"] = draw(st.sampled_from(["", "x", "default value", "\U0001f680", "caf\u00e9"]))
                members.append(m)
            f["fields"] = members
            force_tag = draw(st.integers(0, 3)) != 0
        else:  # struct / struct array, inline or common
            f["name"] = draw(field_name(used))
            array = shape in (8, 9, 10)
            use_common = commons and draw(st.integers(0, 2)) == 0
            if use_common:
                sname = draw(st.sampled_from([c["name"] for c in commons]))
            else:
                sname = None
                if depth < 2:
                    for _ in range(20):
                        if draw(st.integers(0, 2)) == 0:
                            # a small shared pool: different definitions of one generator run then often declare same-named
                            # structs of different shapes (upstream: TopicData, PartitionData, ... in many messages)
                            cand = draw(st.sampled_from(["TopicData", "PartitionData", "ZedSharedItem"]))
                        else:
                            cand = "Zed" + draw(st.sampled_from(WORDS)) + draw(st.sampled_from(["Data", "Info", "Entry", "Item", "Spec"]))
                        if cand not in struct_names:
                            sname = cand
                            struct_names.add(cand)
                            break
                if sname is None:
                    f["type"] = "int32"
                    out.append(f)
                    continue
                # nested levels may reference the definition's commonStructs too (upstream: a struct below an inline struct
                # and a top-level array often share one common struct)
                f["fields"] = draw(fields(fvers, flex, top, depth + 1, struct_names, commons, allow_special, nullable_prim_arrays))
            f["type"] = ("[]" if array else "") + sname
            if (array or not use_common) and draw(st.integers(0, 3)) == 0:
                nlo, nhi = draw(sub_range(fvers, top))
                f["nullableVersions"] = spell_range(nlo, nhi, hi, draw)
                if not array and (nlo, nhi) == (lo, hi) and draw(st.booleans()):
                    f["default"] = "null"
        # tagging -- restricted to the combinations the upstream definitions use (see DESIGN.md C16):
        #  * a tagged nullable field is nullable in all its versions and has default "null"
        #  * records fields, nullable structs/arrays and non-array common structs are never tagged
        flex_vers = [v for v in fvers if v in flex]
        base_t = f["type"].removeprefix("[]")
        is_common = any(c["name"] == base_t for c in commons)
        taggable = (
            base_t != "records"
            and not (f["type"].startswith("[]") and "nullableVersions" in f)
            and not (("fields" in f or is_common) and "nullableVersions" in f)
            and not (is_common and not f["type"].startswith("[]"))
            # a tagged non-array struct gets its default by instantiating the struct with defaults, which kio supports
            # only for structs made of plain primitives (as in the upstream definitions)
            and not ("fields" in f and not f["type"].startswith("[]")
                     and any(g["type"].startswith("[]") or "fields" in g or g["type"] in ("records", "uuid") or "nullableVersions" in g
                         for g in f["fields"]))
        )
        if flex_vers and taggable and (force_tag or draw(st.integers(0, 3)) == 0):
            whole = flex_vers == fvers and draw(st.booleans())
            tlo = fvers[0] if whole else draw(st.sampled_from(flex_vers))
            f["tag"] = next_tag
            next_tag += draw(st.sampled_from([1, 1, 2]))
            f["taggedVersions"] = f"{tlo}+"
            if "nullableVersions" in f:
                f["nullableVersions"] = f.get("versions", f"{lo}+")
                f["default"] = "null"
            if whole and hi == top and draw(st.booleans()):
                f.pop("versions", None)  # upstream allows omitting `versions` for tagged fields: taggedVersions is the fallback
                if "nullableVersions" in f:
                    f["nullableVersions"] = f"{tlo}+"
            if draw(st.booleans()) or base_t == "uuid" and not f["type"].startswith("[]"):
                f["ignorable"] = True  # (a tagged uuid is always ignorable upstream: that is how it gets its None default)
        elif draw(st.integers(0, 4)) == 0:
            f["ignorable"] = True
        if draw(st.booleans()):
            f["about"] = draw(st.sampled_from([f"The {f['name']} field.", f"The {f['name']} field.", "Numerator // denominator, rounded down.",
                                               "See https://kafka.apache.org/protocol // section 5.", 'A "quoted" word, a \\ backslash and a trailing //',
                                               "100% of {braces} and %s", "Line one.\nLine two."]))
        # field-level keys without meaning for the models
        if f["type"] == "bytes" and draw(st.integers(0, 2)) == 0:
            f["zeroCopy"] = True
        if depth >= 1 and not out and f["type"] in ("int32", "string", "int16") and "tag" not in f and draw(st.integers(0, 3)) == 0:
            f["mapKey"] = True
        out.append(f)
    return out


@st.composite
def definition(draw, api_word: str, api_key: int, nullable_prim_arrays: bool = False):
    etype = draw(st.sampled_from(["request", "response", "request", "response", "data"]))
    lo = draw(st.sampled_from([0, 0, 1, 2]))
    hi = lo + draw(st.sampled_from([0, 1, 2, 3, 4]))
    wide = draw(st.integers(0, 11))
    if wide == 0:  # two-digit versions, as the long-lived upstream APIs have (Fetch 0-17, Metadata 0-13): ranges such as 8-10 or 3-11
        lo, hi = draw(st.sampled_from([(0, 10), (2, 11), (3, 12), (1, 13)]))
    elif wide in (1, 2):
        lo = draw(st.sampled_from([6, 7, 8, 9]))
        hi = draw(st.sampled_from([10, 11, 12]))
    versions = list(range(lo, hi + 1))
    fmode = draw(st.integers(0, 3))
    if fmode == 0:
        flexible, flex = "none", set()
    else:
        k = draw(st.sampled_from(versions + [hi + 1] if fmode == 1 else versions))
        flexible, flex = f"{k}+", {v for v in versions if v >= k}
    name = api_word + {"request": "Request", "response": "Response", "data": "Record"}[etype]
    struct_names: set = {name}
    commons = []
    if draw(st.integers(0, 3)) == 0:
        for i in range(draw(st.integers(1, 2))):
            cname = f"Common{api_word}{'AB'[i]}"
            struct_names.add(cname)
            commons.append({"name": cname, "versions": f"{lo}+", "fields": draw(fields(versions, flex, hi, 2, struct_names, [], False))})
    doc: dict = {}
    if etype in ("request", "response"):
        doc["apiKey"] = api_key
    doc.update({"type": etype, "name": name, "validVersions": f"{lo}-{hi}" if hi > lo else str(lo), "flexibleVersions": flexible})
    # top-level keys of the upstream format that carry no meaning for the generated models: they must not change anything
    if draw(st.integers(0, 2)) == 0:
        doc["latestVersionUnstable"] = draw(st.booleans())
    if hi > lo and draw(st.integers(0, 3)) == 0:
        doc["deprecatedVersions"] = f"{lo}-{draw(st.integers(lo, hi - 1))}" if draw(st.booleans()) else str(lo)
    if etype == "request" and draw(st.booleans()):
        doc["listeners"] = draw(st.sampled_from([["zkBroker", "broker"], ["controller"], ["zkBroker", "broker", "controller"]]))
    doc["fields"] = draw(fields(versions, flex, hi, 0, struct_names, commons, True, nullable_prim_arrays))
    if commons:
        doc["commonStructs"] = commons
    return doc


@st.composite
def sibling(draw, defn: dict, api_key: int) -> dict:
    """A second message that declares the SAME struct names as `defn` with slightly different bodies: plain primitive
    members gain or lose their explicit default.  Upstream does this all the time (TopicData, PartitionData, ... differ
    from message to message); it is what exposes generator state keyed by struct name instead of by message."""
    import copy

    twin = copy.deepcopy(defn)
    for suffix in ("Request", "Response", "Record"):
        if twin["name"].endswith(suffix):
            twin["name"] = twin["name"][: -len(suffix)] + "Twin" + suffix
            break
    if "apiKey" in twin:
        twin["apiKey"] = api_key

    def perturb(fields: list) -> None:
        for f in fields:
            if "fields" in f:
                perturb(f["fields"])
                continue
            t = f["type"]
            if t.startswith("[]") or "tag" in f or "nullableVersions" in f or "entityType" in f or f["name"].endswith("Ms") \
                    or f["name"] in ("ErrorCode", "PartitionErrorCode"):
                continue
            if "default" in f:
                if draw(st.booleans()):
                    del f["default"]
            elif draw(st.booleans()):
                if t in INT_TYPES:
                    f["default"] = "1"
                elif t == "bool":
                    f["default"] = "true"
                elif t == "float64":
                    f["default"] = "1.5"
                elif t == "string":
                    f["default"] = "x"

    perturb(twin["fields"])
    for c in twin.get("commonStructs", []):
        perturb(c["fields"])
    return twin


@st.composite
def batches(draw, max_defs: int = 6, nullable_prim_arrays: bool = False):
    n = draw(st.integers(1, max_defs))
    words = draw(st.lists(st.sampled_from(["Frobnicate", "Wibble", "Quux", "Zorch", "Blarg", "Snafu", "Plugh", "Xyzzy", "Thud", "Grault",
                                           "DescribeWidget", "AlterISRState", "ListV2Things"]), min_size=n, max_size=n, unique=True))
    keys = draw(st.lists(st.one_of(st.sampled_from([7, 18]), st.integers(100, 30000), st.integers(100, 30000)),
                         min_size=n, max_size=n, unique=True))
    defs = [draw(definition(w, k, nullable_prim_arrays)) for w, k in zip(words, keys)]
    if draw(st.booleans()):
        # a sibling of one of them in the same generator run, before or after it in file order
        src = draw(st.sampled_from(defs))
        key = draw(st.integers(30001, 32000).filter(lambda k: k not in keys))
        twin = draw(sibling(src, key))
        if draw(st.booleans()):
            defs.append(twin)
        else:
            defs.insert(0, twin)
    return defs
