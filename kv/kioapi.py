"""Thin wrappers around the public kio API used by the checks."""

from __future__ import annotations

import dataclasses
import datetime
import io
import traceback

from kio.serial import entity_reader, entity_writer  # noqa: F401
from kio.serial import errors as kerrors

from .refcodec import py_equal


def exc_signature(e: BaseException) -> str:
    """exception type + innermost frame inside the kio package."""
    frames = traceback.extract_tb(e.__traceback__)
    where = "?"
    for fr in reversed(frames):
        fn = fr.filename.replace("\\", "/")
        if "/kio/" in fn and "/verif/" not in fn:
            where = f"{fn.split('/kio/', 1)[1]}:{fr.name}"
            break
    return f"{type(e).__name__}@{where}"


def encode(cls: type, value: object) -> bytes:
    buf = io.BytesIO()
    entity_writer(cls)(buf, value)
    return buf.getvalue()


def decode(cls: type, data: bytes) -> tuple[object, int]:
    buf = io.BytesIO(data)
    value = entity_reader(cls)(buf)
    return value, buf.tell()


def diff_path(a: object, b: object, path: str = "") -> str | None:
    """First structural difference between two python values, as a generic path."""
    if dataclasses.is_dataclass(a) and not isinstance(a, type):
        if type(a) is not type(b):
            return f"{path}<type {type(a).__name__} vs {type(b).__name__}>"
        for f in dataclasses.fields(a):
            kt = f.metadata.get("kafka_type", "struct")
            tag = ",tagged" if "tag" in f.metadata else ""
            d = diff_path(getattr(a, f.name), getattr(b, f.name), f"{path}.{kt}{tag}")
            if d is not None:
                return d
        return None
    if isinstance(a, tuple) and isinstance(b, tuple):
        if len(a) != len(b):
            return f"{path}[len {len(a)} vs {len(b)}]" if False else f"{path}[len]"
        for x, y in zip(a, b):
            d = diff_path(x, y, path + "[]")
            if d is not None:
                return d
        return None
    if py_equal(a, b):
        return None
    return f"{path}<{type(a).__name__} vs {type(b).__name__}>"


def map_datetimes(x: object, fn):
    if dataclasses.is_dataclass(x) and not isinstance(x, type):
        changes = {}
        for f in dataclasses.fields(x):
            v = getattr(x, f.name)
            nv = map_datetimes(v, fn)
            if nv is not v:
                changes[f.name] = nv
        return dataclasses.replace(x, **changes) if changes else x
    if isinstance(x, tuple):
        items = tuple(map_datetimes(i, fn) for i in x)
        return items if any(a is not b for a, b in zip(items, x)) else x
    if isinstance(x, datetime.datetime):
        return fn(x)
    return x


# UTC instants (ms) at which the clocks of a zone change, for building DST-sensitive companions of a value
DST_TRANSITIONS = {
    "Europe/Paris": (1635642000000, 1616893200000),
    "America/New_York": (1636264800000,),
    "Australia/Lord_Howe": (1617462000000,),
}
_EPOCH = datetime.datetime(1970, 1, 1, tzinfo=datetime.timezone.utc)
_MS = datetime.timedelta(milliseconds=1)


def dst_companion(x: object):
    """If some datetime inside entity x lies within 12 h of a known DST transition T of a zone Z:
    -> (Z, x with all datetimes expressed in Z, the same with every such datetime mirrored to 2T - t), else None.
    The mirror image of T - 30 min is T + 30 min: the other "fold twin" of the same wall-clock time, and the mirror of
    T - 3 h lies on the same local day with the other UTC offset."""
    import zoneinfo

    found = []

    def scan(dt):
        ms = (dt - _EPOCH) // _MS
        for zone, ts in DST_TRANSITIONS.items():
            for t in ts:
                if abs(ms - t) <= 12 * 3600 * 1000:
                    found.append((zone, t))
        return dt

    map_datetimes(x, scan)
    if not found:
        return None
    zone, t0 = found[0]
    try:
        tz = zoneinfo.ZoneInfo(zone)
    except Exception:
        return None

    def rez(dt):
        try:
            return dt.astimezone(tz)
        except OverflowError:  # the last hours of year 9999 cannot be expressed east of UTC
            return dt

    def mirror(dt):
        ms = (dt - _EPOCH) // _MS
        if abs(ms - t0) <= 12 * 3600 * 1000:
            return (_EPOCH + (2 * t0 - ms) * _MS).astimezone(tz)
        return rez(dt)

    return zone, map_datetimes(x, rez), map_datetimes(x, mirror)


def failed_decode_prelude(cd) -> int:
    """Up to ~24 FAILED decodes of the class: prefixes of the encoding of a value with every tagged field present.  Used
    before a property is checked on a fresh value - what happened to earlier messages on a connection (e.g. it was cut)
    must not influence the next one.  -> number of failed decodes"""
    from .c19_orders import populated_tree
    from .refcodec import ref_encode

    try:
        data = ref_encode(cd, populated_tree(cd, 1, 0))
    except Exception:
        return 0
    n = 0
    step = max(1, len(data) // 24)
    for k in range(len(data) - 1, 0, -step):
        try:
            decode(cd.cls, data[:k])
        except Exception:
            n += 1
    return n


SerialError = kerrors.SerialError
BufferUnderflow = kerrors.BufferUnderflow
OutOfBoundValue = kerrors.OutOfBoundValue
UnexpectedNull = kerrors.UnexpectedNull
