"""Thin wrappers around the public kio API used by the checks."""

from __future__ import annotations

import dataclasses
import datetime
import io
import traceback

from kio.serial import entity_reader, entity_writer  # noqa: F401
from kio.serial import errors as kerrors

from .refcodec import py_equal


def exc_signature(e: BaseException) -> str:
    """exception type + innermost frame inside the kio package."""
    frames = traceback.extract_tb(e.__traceback__)
    where = "?"
    for fr in reversed(frames):
        fn = fr.filename.replace("\\", "/")
        if "/kio/" in fn and "/verif/" not in fn:
            where = f"{fn.split('/kio/', 1)[1]}:{fr.name}"
            break
    return f"{type(e).__name__}@{where}"


def encode(cls: type, value: object) -> bytes:
    buf = io.BytesIO()
    entity_writer(cls)(buf, value)
    return buf.getvalue()


def decode(cls: type, data: bytes) -> tuple[object, int]:
    buf = io.BytesIO(data)
    value = entity_reader(cls)(buf)
    return value, buf.tell()


def diff_path(a: object, b: object, path: str = "") -> str | None:
    """First structural difference between two python values, as a generic path."""
    if dataclasses.is_dataclass(a) and not isinstance(a, type):
        if type(a) is not type(b):
            return f"{path}<type {type(a).__name__} vs {type(b).__name__}>"
        for f in dataclasses.fields(a):
            kt = f.metadata.get("kafka_type", "struct")
            tag = ",tagged" if "tag" in f.metadata else ""
            d = diff_path(getattr(a, f.name), getattr(b, f.name), f"{path}.{kt}{tag}")
            if d is not None:
                return d
        return None
    if isinstance(a, tuple) and isinstance(b, tuple):
        if len(a) != len(b):
            return f"{path}[len {len(a)} vs {len(b)}]" if False else f"{path}[len]"
        for x, y in zip(a, b):
            d = diff_path(x, y, path + "[]")
            if d is not None:
                return d
        return None
    if py_equal(a, b):
        return None
    return f"{path}<{type(a).__name__} vs {type(b).__name__}>"


def map_datetimes(x: object, fn):
    if dataclasses.is_dataclass(x) and not isinstance(x, type):
        changes = {}
        for f in dataclasses.fields(x):
            v = getattr(x, f.name)
            nv = map_datetimes(v, fn)
            if nv is not v:
                changes[f.name] = nv
        return dataclasses.replace(x, **changes) if changes else x
    if isinstance(x, tuple):
        items = tuple(map_datetimes(i, fn) for i in x)
        return items if any(a is not b for a, b in zip(items, x)) else x
    if isinstance(x, datetime.datetime):
        return fn(x)
    return x


SerialError = kerrors.SerialError
BufferUnderflow = kerrors.BufferUnderflow
OutOfBoundValue = kerrors.OutOfBoundValue
UnexpectedNull = kerrors.UnexpectedNull
