"""Deterministic thread scheduler at source-line granularity.

Every worker thread installs a ``sys.settrace`` function that fires on each ``line`` event in files under a
given path prefix (the kio package), and on each call of code generated for the package's classes (dataclass methods), and hands control to a token-passing scheduler: only the token holder runs,
so the interleaving is a pure function of the schedule = list of preemptions ``(global step, target thread)``
applied over a default run-to-completion order (thread 0, then 1, ...).
"""

from __future__ import annotations

import sys
import threading
from dataclasses import dataclass, field


class SchedulerStuck(Exception):
    pass


@dataclass
class RunResult:
    results: list  # per thread: list of op results or exception instances
    steps: int
    preempted_at: list = field(default_factory=list)  # (step, from_thread, to_thread, function name, file:line)
    errors: list = field(default_factory=list)  # (thread, exception)


class Scheduler:
    def __init__(self, programs: list, preemptions: list[tuple[int, int]], prefix: str, timeout: float = 60.0):
        """programs: list of zero-arg callables (one per thread) returning that thread's result list."""
        self.programs = programs
        self.preemptions = sorted(preemptions)
        self.prefix = prefix
        self.timeout = timeout
        self.n = len(programs)
        self.sems = [threading.Semaphore(0) for _ in range(self.n)]
        self.done = [False] * self.n
        self.current = 0
        self.step = 0
        self.next_pre = 0
        self.result = RunResult(results=[None] * self.n, steps=0)
        self.finished = threading.Event()

    # ---- token passing (only ever called by the token holder)
    def _pass_to(self, me: int, to: int) -> None:
        self.current = to
        self.sems[to].release()
        if not self.sems[me].acquire(timeout=self.timeout):
            raise SchedulerStuck(f"thread {me} never got the token back")

    def _next_runnable(self, exclude: int) -> int | None:
        for i in range(self.n):
            if i != exclude and not self.done[i]:
                return i
        return None

    def _yield_point(self, me: int, frame) -> None:
        step = self.step
        self.step += 1
        while self.next_pre < len(self.preemptions) and self.preemptions[self.next_pre][0] < step:
            self.next_pre += 1
        if self.next_pre < len(self.preemptions) and self.preemptions[self.next_pre][0] == step:
            target = self.preemptions[self.next_pre][1] % self.n
            self.next_pre += 1
            if target != me and not self.done[target]:
                self.result.preempted_at.append(
                    (step, me, target, frame.f_code.co_name, f"{frame.f_code.co_filename.rsplit('/kio/', 1)[-1]}:{frame.f_lineno}")
                )
                self._pass_to(me, target)

    def _make_trace(self, me: int):
        prefix = self.prefix

        def local(frame, event, arg):
            if event == "line":
                self._yield_point(me, frame)
            return local

        package = prefix.rstrip("/").rsplit("/", 1)[-1]

        def global_trace(frame, event, arg):
            if event == "call":
                fn = frame.f_code.co_filename
                if fn.startswith(prefix):
                    return local
                # code generated for the package's classes (dataclass __init__/__eq__/__lt__ .., compiled from "<string>"
                # with the defining module's globals): ONE yield point per call.  C code that calls back into such a
                # method - list.sort() comparing records, dict lookups hashing them - can be preempted there.
                if fn.startswith("<") and str(frame.f_globals.get("__name__", "")).split(".")[0] == package:
                    self._yield_point(me, frame)
            return None

        return global_trace

    def _thread_main(self, me: int) -> None:
        if not self.sems[me].acquire(timeout=self.timeout):
            return
        sys.settrace(self._make_trace(me))
        try:
            self.result.results[me] = self.programs[me]()
        except BaseException as e:  # noqa: BLE001 - recorded, judged by the caller
            self.result.errors.append((me, e))
        finally:
            sys.settrace(None)
            self.done[me] = True
            nxt = self._next_runnable(me)
            if nxt is None:
                self.finished.set()
            else:
                self.current = nxt
                self.sems[nxt].release()

    def run(self) -> RunResult:
        threads = [threading.Thread(target=self._thread_main, args=(i,), daemon=True) for i in range(self.n)]
        for t in threads:
            t.start()
        self.sems[0].release()
        if not self.finished.wait(self.timeout):
            raise SchedulerStuck("schedule did not finish")
        for t in threads:
            t.join(self.timeout)
        self.result.steps = self.step
        return self.result


def sweep_one_preemption(make_programs, prefix: str, stride: int = 1, limit: int = 4000, start: int = 0):
    """Run `make_programs()` (-> list of zero-arg callables, built afresh per schedule) once to completion, then once per
    step k of thread 0 with ONE preemption there (thread 0 is parked at k, the other threads run to completion, thread 0
    resumes), and likewise with thread 1 parked while thread 0 runs.  Yields (label, RunResult)."""
    dry = Scheduler(make_programs(), [], prefix).run()
    yield "sequential", dry
    n = 0
    for k in range(start, dry.steps, stride):
        if n >= limit:
            break
        n += 1
        yield f"park-thread-0@{k}", Scheduler(make_programs(), [(k, 1)], prefix).run()
    # thread 1 first: start it by preempting thread 0 at its very first step, then park thread 1 at step k, run 0, resume 1
    for k in range(1 + start, dry.steps, stride):
        if n >= 2 * limit:
            break
        n += 1
        yield f"park-thread-1@{k}", Scheduler(make_programs(), [(0, 1), (k, 0)], prefix).run()
