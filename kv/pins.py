"""Loader for fixtures/kafka-3.9.0-pins.json and the Kafka header rule."""
from __future__ import annotations

import json
from functools import lru_cache
from pathlib import Path

PINS_FILE = Path(__file__).resolve().parent.parent / "fixtures" / "kafka-3.9.0-pins.json"


@lru_cache(maxsize=None)
def pins() -> dict:
    return json.loads(PINS_FILE.read_text())


def pinned_flexible(api: str, etype: str, version: int) -> bool:
    ff = pins()["apis"][api][etype]["first_flexible"]
    return ff is not None and version >= ff


def expected_header(etype: str, api_key: int, version: int, flexible: bool) -> tuple[str, int]:
    """Kafka's rule (ApiMessageType.requestHeaderVersion / responseHeaderVersion)."""
    if etype == "request":
        if api_key == 7 and version == 0:  # ControlledShutdown v0 predates client ids
            return ("request_header", 0)
        return ("request_header", 2 if flexible else 1)
    if etype == "response":
        if api_key == 18:  # ApiVersions: the client must parse it before it knows the version
            return ("response_header", 0)
        return ("response_header", 1 if flexible else 0)
    raise ValueError(etype)
