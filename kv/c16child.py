"""Child process of C16: runs inside a scratch tree whose kio.schema was just generated.

usage: PYTHONPATH=<scratch>/src:<scratch>:/verif KV_REPO=<scratch> python -m kv.c16child <spec.json> <out.json>
spec.json: {"definitions": [...], "seed": int, "trees_per_class": int, "expected_index_defs": [...all definitions in the tree...]}
"""

from __future__ import annotations

import dataclasses
import datetime
import importlib
import json
import sys

import hypothesis
from hypothesis import HealthCheck, Phase, given, settings

from . import defspec as S
from . import describe as D
from .dumpschema import canon_type
from .refcodec import from_entity, py_equal, ref_encode, to_entity, tree_to_json
from .strategies import Profile, tree_labels, tree_strategy

PROFILE = Profile("c16", long_lengths=(126, 127, 128, 129), max_array=2)



def _float_sign_differs(a, b) -> bool:
    """0.0 == -0.0 in Python, but they are different defaults on the wire."""
    import math

    return isinstance(a, float) and isinstance(b, float) and a == b and math.copysign(1.0, a) != math.copysign(1.0, b)

def zero_like(v) -> bool:
    return v in (0, 0.0, "", b"", (), None, False, datetime.timedelta(0)) or (hasattr(v, "value") and v.value == 0)


class Ctx:
    def __init__(self):
        self.failures: list = []
        self.stats = {"classes": 0, "fields": 0, "byte_cases": 0, "byte_cases_nontrivial": 0, "modules": 0}
        self.samples: list = []

    def fail(self, sig: str, msg: str, defname: str):
        self.failures.append({"sig": sig, "msg": msg[:1500], "definition": defname})


def expected_default(ctx, mod: S.XModule, pymod, x: S.XField):
    """Expected python value of the effective default of a tagged (or explicitly defaulted) field."""
    if x.default == "STRUCT_OF_DEFAULTS":
        xc = mod.classes[x.struct]
        cls = getattr(pymod, x.struct)
        kwargs = {}
        for sf in xc.fields:
            if sf.has_explicit_default or sf.tag is not None or sf.array:
                kwargs[sf.name] = expected_default(ctx, mod, pymod, sf)
            else:
                kwargs[sf.name] = () if sf.array else (expected_default(ctx, mod, pymod, dataclasses.replace(sf, default="STRUCT_OF_DEFAULTS"))
                                                       if sf.kind == "struct" and not sf.nullable else S.ZERO.get(sf.kind, 0))
        return cls(**kwargs)
    if x.kind == "error_code" and isinstance(x.default, int):
        from kio.schema.errors import ErrorCode

        return ErrorCode(x.default)
    return x.default


def build_desc(ctx, mod: S.XModule, pymod, name: str, cache: dict) -> D.ClassDesc:
    if name in cache:
        return cache[name]
    xc = mod.classes[name]
    cls = getattr(pymod, name)
    fds = []
    for x in xc.fields:
        struct = build_desc(ctx, mod, pymod, x.struct, cache) if x.kind == "struct" else None
        has_default = x.tag is not None or x.has_explicit_default
        default = expected_default(ctx, mod, pymod, x) if has_default else None
        fds.append(D.FieldDesc(name=x.name, kind=x.kind, nullable=x.nullable, array=x.array, item_nullable=x.item_nullable,
                               struct=struct, tag=x.tag, has_default=has_default, default=default, pytype=None))
    cd = D.ClassDesc(cls=cls, path=f"{cls.__module__}:{name}", flexible=mod.flexible,
                     is_request_header=(name == "RequestHeader"), fields=tuple(fds))
    cache[name] = cd
    return cd


def check_module(ctx: Ctx, defn: dict, mod: S.XModule, seed: int, n_trees: int) -> None:
    defname = defn["name"]
    modname = f"kio.schema.{mod.api}.v{mod.version}.{mod.etype}"
    try:
        pymod = importlib.import_module(modname)
    except Exception as e:
        ctx.fail(f"generated-module-does-not-import:{type(e).__name__}", f"{modname}: {e!r}", defname)
        return
    ctx.stats["modules"] += 1
    got_classes = {c.__name__: c for c in D.module_classes(modname)}
    # "one class per structure": the module SOURCE must not define a class twice either (Python silently rebinds the name,
    # so the module namespace alone cannot show it)
    try:
        import ast
        import collections

        tree = ast.parse(open(pymod.__file__).read())
        dup = [n for n, k in collections.Counter(x.name for x in tree.body if isinstance(x, ast.ClassDef)).items() if k > 1]
        if dup:
            ctx.fail("class-defined-twice", f"{modname}: the generated source defines {sorted(dup)} more than once", defname)
    except (OSError, SyntaxError):
        pass
    if set(got_classes) != set(mod.classes):
        ctx.fail("class-set", f"{modname}: generated classes {sorted(got_classes)}, definition implies {sorted(mod.classes)}", defname)
    for name, xc in mod.classes.items():
        cls = got_classes.get(name)
        if cls is None:
            continue
        ctx.stats["classes"] += 1
        key = f"{modname}:{name}"
        # class variables
        want_type = mod.etype if xc.top_level else "nested"
        if cls.__type__.name != want_type:
            ctx.fail("classvar:__type__", f"{key}: {cls.__type__.name}, expected {want_type}", defname)
        if cls.__version__ != mod.version or cls.__flexible__ is not mod.flexible:
            ctx.fail("classvar:version-or-flexible", f"{key}: version {cls.__version__} flexible {cls.__flexible__}, expected {mod.version} {mod.flexible}", defname)
        if getattr(cls, "__api_key__", None) != mod.api_key:
            ctx.fail("classvar:__api_key__", f"{key}: {getattr(cls, '__api_key__', None)}, expected {mod.api_key}", defname)
        hs = getattr(cls, "__header_schema__", None)
        if mod.header is None:
            if hs is not None:
                ctx.fail("classvar:__header_schema__", f"{key}: unexpected header {hs}", defname)
        else:
            want = S.header_module(mod.header)
            if hs is None or hs.__module__ != want:
                ctx.fail("classvar:__header_schema__", f"{key}: header {hs!r}, Kafka mandates {want}", defname)
        p = cls.__dataclass_params__
        if not (p.frozen and p.eq and "__slots__" in vars(cls)):
            ctx.fail("dataclass-options", f"{key}", defname)
        gfields = dataclasses.fields(cls)
        if [g.name for g in gfields] != [x.name for x in xc.fields]:
            ctx.fail("field-names-or-order", f"{key}: generated {[g.name for g in gfields]}, definition implies {[x.name for x in xc.fields]} "
                     f"(from {[x.json_name for x in xc.fields]})", defname)
            continue
        for g, x in zip(gfields, xc.fields):
            ctx.stats["fields"] += 1
            fid = f"{key}.{x.name}"
            ann = S.expected_annotation(modname, x)
            if canon_type(g.type) != ann and not (x.nullability_free and canon_type(g.type).replace(" | None", "") == ann.replace(" | None", "")):
                what = "nullability" if canon_type(g.type).replace(" | None", "") == ann.replace(" | None", "") else "type"
                ctx.fail(f"field-annotation:{what}:{x.kind}{',array' if x.array else ''}{',tagged' if x.tag is not None else ''}",
                         f"{fid}: annotated {canon_type(g.type)}, definition implies {ann}", defname)
            if g.metadata.get("kafka_type") != (None if x.kind == "struct" else x.kind):
                ctx.fail("field-kafka-type", f"{fid}: kafka_type {g.metadata.get('kafka_type')!r}, expected {x.kind}", defname)
            if g.metadata.get("tag") != x.tag:
                ctx.fail("field-tag", f"{fid}: tag {g.metadata.get('tag')!r}, definition says {x.tag!r} at v{mod.version}", defname)
            if not (g.init and g.repr and g.compare and g.hash is None):
                ctx.fail("field-options", f"{fid}: init={g.init} repr={g.repr} compare={g.compare} hash={g.hash}: every generated field takes part in "
                         f"__init__, repr, equality and hash", defname)
            has = g.default is not dataclasses.MISSING
            if x.tag is not None:
                try:
                    from kio.serial._implicit_defaults import get_tagged_field_default

                    eff = g.default if has else get_tagged_field_default(g)
                    want = expected_default(ctx, mod, pymod, x)
                    if _float_sign_differs(eff, want) or (not py_equal(eff, want) and not (eff == want and not isinstance(want, bool))):
                        ctx.fail(f"tagged-default:{x.kind}{',array' if x.array else ''}{',ignorable' if x.default_known and not x.has_explicit_default else ''}",
                                 f"{fid}: effective default {eff!r}, definition implies {want!r}", defname)
                except Exception as e:
                    ctx.fail(f"tagged-default-unresolvable:{type(e).__name__}", f"{fid}: {e!r}", defname)
            elif x.has_explicit_default:
                want = expected_default(ctx, mod, pymod, x)
                if not has:
                    ctx.fail("explicit-default-dropped", f"{fid}: definition default {want!r} but the field has none", defname)
                elif _float_sign_differs(g.default, want) or not (py_equal(g.default, want) or (g.default == want and not isinstance(want, bool) and not isinstance(g.default, bool))):
                    ctx.fail(f"explicit-default-value:{x.kind}", f"{fid}: default {g.default!r}, definition says {want!r}", defname)
            elif has and not zero_like(g.default):
                ctx.fail("invented-default", f"{fid}: default {g.default!r} but the definition states none", defname)
        # ---- bytes: kio writer on the generated class vs reference encoding driven by the definition
        try:
            cd = build_desc(ctx, mod, pymod, name, {})
        except Exception as e:
            ctx.fail(f"cannot-build-expected-description:{type(e).__name__}", f"{key}: {e!r}", defname)
            continue
        byte_check(ctx, cd, seed, n_trees, defname)


def byte_check(ctx: Ctx, cd: D.ClassDesc, seed: int, n: int, defname: str) -> None:
    from kio.serial import entity_reader, entity_writer
    import io

    try:
        w, r = entity_writer(cd.cls), entity_reader(cd.cls)
    except Exception as e:
        ctx.fail(f"codec-not-derivable:{type(e).__name__}", f"{cd.path}: {e!r}", defname)
        return

    @hypothesis.seed(seed)
    @settings(max_examples=n, database=None, deadline=None, phases=[Phase.generate], suppress_health_check=list(HealthCheck))
    @given(tree_strategy(cd, PROFILE))
    def test(tree):
        ctx.stats["byte_cases"] += 1
        try:
            x = to_entity(cd, tree)
        except Exception as e:
            ctx.fail(f"cannot-instantiate:{type(e).__name__}", f"{cd.path}: {e!r}", defname)
            return
        expected = ref_encode(cd, from_entity(cd, x))
        labels = tree_labels(cd, tree)
        if labels & {"tagged_nondefault", "array_null", "nullable_null", "struct_null", "array_many"}:
            ctx.stats["byte_cases_nontrivial"] += 1
        buf = io.BytesIO()
        try:
            w(buf, x)
        except Exception as e:
            ctx.fail(f"encode-raised:{type(e).__name__}", f"{cd.path}: encoding {x!r:.300} raised {e!r}", defname)
            return
        if buf.getvalue() != expected:
            ctx.fail("bytes-differ", f"{cd.path}: value {x!r:.300}\n kio {buf.getvalue().hex()[:300]}\n definition-driven reference {expected.hex()[:300]}", defname)
            return
        try:
            y = r(io.BytesIO(expected))
            x = to_entity(cd, from_entity(cd, x))  # what the canonical bytes denote (-0.0 in an elided tagged double is 0.0)
            if not py_equal(x, y):
                ctx.fail("decode-differs", f"{cd.path}: {expected.hex()[:300]} decodes to {y!r:.300}, expected {x!r:.300}", defname)
        except Exception as e:
            ctx.fail(f"decode-raised:{type(e).__name__}", f"{cd.path}: {expected.hex()[:300]}: {e!r}", defname)
        if len(ctx.samples) < 2 and len(expected) > 6:
            ctx.samples.append({"class": cd.path, "value": repr(x)[:300], "bytes": expected.hex()[:200]})

    test()


def check_index(ctx: Ctx, all_defs: list) -> None:
    try:
        idx = importlib.import_module("kio.schema.index")
    except Exception as e:
        ctx.fail(f"index-does-not-import:{type(e).__name__}", repr(e), "<index>")
        return
    want = set()
    want_keys = {}
    for d in all_defs:
        for m in S.expected_modules(d):
            want.add((m.api, m.version, m.etype, f"kio.schema.{m.api}.v{m.version}.{m.etype}:{m.top}"))
            if m.api_key is not None:
                want_keys[m.api_key] = m.api
    got = {(n, v, t.name, p) for n, vm in idx.schema_name_map.items() for v, tm in vm.items() for t, p in tm.items()}
    if got != want:
        ctx.fail("index-entries", f"only in index {sorted(got - want)[:4]}, missing from index {sorted(want - got)[:4]}", "<index>")
    if dict(idx.api_key_map) != want_keys:
        ctx.fail("index-api-keys", f"api_key_map {dict(idx.api_key_map)}, expected {want_keys}", "<index>")


def main() -> None:
    spec = json.load(open(sys.argv[1]))
    ctx = Ctx()
    for i, defn in enumerate(spec["definitions"]):
        try:
            mods = S.expected_modules(defn)
        except Exception as e:
            ctx.fail(f"harness:defspec:{type(e).__name__}", repr(e), defn["name"])
            continue
        for m in mods:
            try:
                check_module(ctx, defn, m, spec["seed"] + i * 101 + m.version, spec["trees_per_class"])
            except Exception as e:
                import traceback

                ctx.fail(f"harness:child:{type(e).__name__}", traceback.format_exc()[-1200:], defn["name"])
    if spec.get("check_index", True):
        check_index(ctx, spec["expected_index_defs"])
    json.dump({"failures": ctx.failures, "stats": ctx.stats, "samples": ctx.samples}, open(sys.argv[2], "w"))


if __name__ == "__main__":
    main()
