"""Reference Kafka codec over *wire trees*, written from the protocol description
(protocol guide, KIP-482 tagged fields, KIP-893 nullable structs).

Imports nothing from ``kio.serial``.  The only kio imports are value types needed to
*build the expected Python value* (`ErrorCode` enum); the byte-level code is plain Python.

Wire tree (see DESIGN.md 1.2): ``dict`` field-name -> wire value, where

* ints / bool (0|1) / error_code / durations (ms) / timestamps (ms) are ``int``
* float64 is 8 raw ``bytes``
* string is UTF-8 ``bytes`` or ``None``; bytes/records are ``bytes`` or ``None``
* uuid is 16 ``bytes`` (all-zero means null)
* nullable datetime null is ``None`` (encoded as -1)
* array is ``list`` or ``None``; struct is ``dict`` or ``None``
* a tagged field is ``ABSENT`` or ``Present(value)``
* ``tree["__unknown__"]`` (optional, flexible classes only) is a list of ``(tag, bytes)``
"""

from __future__ import annotations

import dataclasses
import datetime
import struct as _struct
import uuid
from dataclasses import dataclass

from .describe import INT_RANGES, ClassDesc, FieldDesc, describe

EPOCH = datetime.datetime(1970, 1, 1, tzinfo=datetime.timezone.utc)
MS = datetime.timedelta(milliseconds=1)
UNKNOWN = "__unknown__"
ZERO_UUID = bytes(16)


class _Absent:
    _inst = None

    def __new__(cls):
        if cls._inst is None:
            cls._inst = super().__new__(cls)
        return cls._inst

    def __repr__(self) -> str:
        return "ABSENT"

    def __reduce__(self):
        return (_Absent, ())


ABSENT = _Absent()


@dataclass(frozen=True)
class Present:
    value: object


class RefEncodeError(Exception):
    """The tree is outside what the wire format can express (e.g. oversize legacy string)."""


# --------------------------------------------------------------------------- primitives


def be(value: int, width: int, signed: bool) -> bytes:
    return value.to_bytes(width, "big", signed=signed)


def uvarint(value: int) -> bytes:
    if value < 0:
        raise RefEncodeError("negative unsigned varint")
    out = bytearray()
    while True:
        low = value % 128
        value //= 128
        if value:
            out.append(low + 128)
        else:
            out.append(low)
            return bytes(out)


def zigzag(value: int, bits: int) -> int:
    # Map signed to unsigned: 0,-1,1,-2,... -> 0,1,2,3,...
    if not -(2 ** (bits - 1)) <= value < 2 ** (bits - 1):
        raise RefEncodeError("zigzag out of range")
    return 2 * value if value >= 0 else -2 * value - 1


def unzigzag(value: int) -> int:
    return value // 2 if value % 2 == 0 else -(value + 1) // 2


def svarint(value: int) -> bytes:
    return uvarint(zigzag(value, 32))


def svarlong(value: int) -> bytes:
    return uvarint(zigzag(value, 64))


def read_uvarint(data: bytes, pos: int, max_bytes: int = 5) -> tuple[int, int]:
    """-> (value, new_pos).  Raises EOFError on underflow, ValueError on overlong."""
    result = 0
    for i in range(max_bytes):
        if pos >= len(data):
            raise EOFError
        b = data[pos]
        pos += 1
        result += (b % 128) * (128**i)
        if b < 128:
            return result, pos
    raise ValueError("varint too long")


_FIXED = {
    "int8": (1, True), "int16": (2, True), "int32": (4, True), "int64": (8, True),
    "uint8": (1, False), "uint16": (2, False), "uint32": (4, False), "uint64": (8, False),
    "error_code": (2, True), "timedelta_i32": (4, True), "timedelta_i64": (8, True),
    "datetime_i64": (8, True),
}


# --------------------------------------------------------------------------- encoder


class OffsetMap:
    """Records (start, end, path, role) spans of the reference encoding."""

    def __init__(self) -> None:
        self.spans: list[tuple[int, int, str, str]] = []

    def add(self, start: int, end: int, path: str, role: str) -> None:
        if end > start:
            self.spans.append((start, end, path, role))

    def boundaries(self) -> set[int]:
        out = set()
        for s, e, _p, _r in self.spans:
            out.add(s)
            out.add(e)
        return out

    def locate(self, offset: int) -> tuple[str, str]:
        best = None
        for s, e, p, r in self.spans:
            if s <= offset < e and (best is None or (e - s) <= (best[1] - best[0])):
                best = (s, e, p, r)
        return (best[2], best[3]) if best else ("<outside>", "")

    def shifted(self, delta: int) -> list[tuple[int, int, str, str]]:
        return [(s + delta, e + delta, p, r) for s, e, p, r in self.spans]


def _emit(out: bytearray, om: OffsetMap | None, data: bytes, path: str, role: str) -> None:
    start = len(out)
    out += data
    if om is not None:
        om.add(start, len(out), path, role)


def _enc_scalar(
    kind: str, value: object, flexible: bool, nullable: bool, legacy_string: bool,
    out: bytearray, om: OffsetMap | None, path: str,
) -> None:
    if kind in _FIXED:
        width, signed = _FIXED[kind]
        if value is None:
            if kind == "datetime_i64" and nullable:
                value = -1
            else:
                raise RefEncodeError(f"null for non-nullable {kind} at {path}")
        _emit(out, om, be(value, width, signed), path, "value")
    elif kind == "float64":
        assert isinstance(value, bytes) and len(value) == 8
        _emit(out, om, value, path, "value")
    elif kind == "bool":
        _emit(out, om, bytes([1 if value else 0]), path, "value")
    elif kind == "uuid":
        assert isinstance(value, bytes) and len(value) == 16
        _emit(out, om, value, path, "value")
    elif kind in ("string", "bytes", "records"):
        if value is None and not nullable:
            raise RefEncodeError(f"null for non-nullable {kind} at {path}")
        if kind == "string" and (legacy_string or not flexible):
            if value is None:
                _emit(out, om, be(-1, 2, True), path, "len")
            else:
                if len(value) > 2**15 - 1:
                    raise RefEncodeError("legacy string too long")
                _emit(out, om, be(len(value), 2, True), path, "len")
                _emit(out, om, value, path, "value")
        elif not flexible:
            if value is None:
                _emit(out, om, be(-1, 4, True), path, "len")
            else:
                if len(value) > 2**31 - 1:
                    raise RefEncodeError("legacy bytes too long")
                _emit(out, om, be(len(value), 4, True), path, "len")
                _emit(out, om, value, path, "value")
        else:
            if value is None:
                _emit(out, om, uvarint(0), path, "len")
            else:
                _emit(out, om, uvarint(len(value) + 1), path, "len")
                _emit(out, om, value, path, "value")
    else:
        raise RefEncodeError(f"unknown kind {kind}")


def _enc_field(cd: ClassDesc, f: FieldDesc, value: object, out: bytearray, om, path: str) -> None:
    legacy_string = cd.is_request_header and f.name == "client_id"
    if f.array:
        if value is None:
            if not f.nullable:
                raise RefEncodeError(f"null for non-nullable array at {path}")
            _emit(out, om, uvarint(0) if cd.flexible else be(-1, 4, True), path, "len")
            return
        n = len(value)
        _emit(out, om, uvarint(n + 1) if cd.flexible else be(n, 4, True), path, "len")
        for i, item in enumerate(value):
            ipath = f"{path}[{i}]"
            if f.kind == "struct":
                _enc_struct(f.struct, item, out, om, ipath)
            else:
                _enc_scalar(f.kind, item, cd.flexible, f.item_nullable, False, out, om, ipath)
        return
    if f.kind == "struct":
        if f.nullable:
            if value is None:
                _emit(out, om, be(-1, 1, True), path, "marker")
                return
            _emit(out, om, be(1, 1, True), path, "marker")
        elif value is None:
            raise RefEncodeError(f"null for non-nullable struct at {path}")
        _enc_struct(f.struct, value, out, om, path)
        return
    nullable = True if (legacy_string) else f.nullable
    _enc_scalar(f.kind, value, cd.flexible, nullable, legacy_string, out, om, path)


def _enc_struct(cd: ClassDesc, tree: dict, out: bytearray, om, path: str) -> None:
    for f in cd.fields:
        if f.tag is not None:
            continue
        _enc_field(cd, f, tree[f.name], out, om, f"{path}.{f.name}")
    if not cd.flexible:
        if tree.get(UNKNOWN):
            raise RefEncodeError("unknown tags on non-flexible class")
        for f in cd.fields:
            if f.tag is not None:
                raise RefEncodeError("tagged field on non-flexible class")
        return
    entries: list[tuple[int, bytes, str, OffsetMap | None]] = []
    for f in cd.fields:
        if f.tag is None:
            continue
        v = tree.get(f.name, ABSENT)
        if v is ABSENT:
            continue
        assert isinstance(v, Present), (path, f.name, v)
        sub = bytearray()
        sub_om = OffsetMap() if om is not None else None
        _enc_field(cd, f, v.value, sub, sub_om, f"{path}.{f.name}")
        entries.append((f.tag, bytes(sub), f"{path}.{f.name}", sub_om))
    for tag, raw in tree.get(UNKNOWN, ()):
        entries.append((tag, bytes(raw), f"{path}.<unknown:{tag}>", None))
    entries.sort(key=lambda e: e[0])
    tags = [e[0] for e in entries]
    if len(set(tags)) != len(tags):
        raise RefEncodeError("duplicate tags")
    _emit(out, om, uvarint(len(entries)), f"{path}.<tags>", "tagcount")
    for tag, payload, epath, sub_om in entries:
        _emit(out, om, uvarint(tag), epath, "tag")
        _emit(out, om, uvarint(len(payload)), epath, "tagsize")
        start = len(out)
        out += payload
        if om is not None:
            if sub_om is not None:
                om.spans.extend(sub_om.shifted(start))
            else:
                om.add(start, len(out), epath, "payload")


def ref_encode(cd: ClassDesc, tree: dict, om: OffsetMap | None = None) -> bytes:
    out = bytearray()
    _enc_struct(cd, tree, out, om, cd.cls.__name__)
    return bytes(out)


# --------------------------------------------------------------------------- defaults


def implicit_zero(f: FieldDesc) -> object:
    """Kafka's implicit default of a field without an explicit one: the zero value."""
    if f.array:
        return ()
    if f.kind == "struct":
        if f.nullable:
            return None
        return f.struct.cls(**{sf.name: default_value(sf) for sf in f.struct.fields})
    if f.kind in INT_RANGES:
        return 0
    if f.kind == "float64":
        return 0.0
    if f.kind == "bool":
        return False
    if f.kind == "string":
        return ""
    if f.kind == "bytes":
        return b""
    if f.kind == "records":
        return None
    if f.kind == "uuid":
        return None  # kio's convention: the zero UUID is None
    if f.kind == "error_code":
        from kio.schema.errors import ErrorCode

        return ErrorCode(0)
    if f.kind in ("timedelta_i32", "timedelta_i64"):
        return datetime.timedelta(0)
    if f.kind == "datetime_i64":
        return EPOCH
    raise RefEncodeError(f"no implicit default for {f.kind}")


def default_value(f: FieldDesc) -> object:
    return f.default if f.has_default else implicit_zero(f)


# --------------------------------------------------------------------------- tree <-> python


def _scalar_to_py(kind: str, v: object, nullable: bool) -> object:
    if kind in INT_RANGES:
        return v
    if kind == "float64":
        return _struct.unpack(">d", v)[0]
    if kind == "bool":
        return bool(v)
    if kind == "string":
        return None if v is None else v.decode("utf-8")
    if kind in ("bytes", "records"):
        return v
    if kind == "uuid":
        return None if v == ZERO_UUID else uuid.UUID(bytes=v)
    if kind == "error_code":
        from kio.schema.errors import ErrorCode

        return ErrorCode(v)
    if kind in ("timedelta_i32", "timedelta_i64"):
        return datetime.timedelta(milliseconds=v)
    if kind == "datetime_i64":
        if v is None:
            return None
        return EPOCH + datetime.timedelta(milliseconds=v)
    raise RefEncodeError(kind)


def _field_to_py(f: FieldDesc, v: object) -> object:
    if f.array:
        if v is None:
            return None
        if f.kind == "struct":
            return tuple(to_entity(f.struct, item) for item in v)
        return tuple(_scalar_to_py(f.kind, item, f.item_nullable) for item in v)
    if f.kind == "struct":
        return None if v is None else to_entity(f.struct, v)
    return _scalar_to_py(f.kind, v, f.nullable)


def to_entity(cd: ClassDesc, tree: dict) -> object:
    kwargs = {}
    for f in cd.fields:
        v = tree.get(f.name, ABSENT) if f.tag is not None else tree[f.name]
        if f.tag is not None:
            if v is ABSENT:
                kwargs[f.name] = default_value(f)
                continue
            v = v.value
        kwargs[f.name] = _field_to_py(f, v)
    return cd.cls(**kwargs)


class NotCanonical(Exception):
    """The Python value has no exact wire image (sub-ms time, zero UUID object, ...)."""


def _scalar_from_py(kind: str, x: object, nullable: bool) -> object:
    if kind in INT_RANGES:
        return int(x)
    if kind == "float64":
        return _struct.pack(">d", x)
    if kind == "bool":
        return 1 if x else 0
    if kind == "string":
        return None if x is None else x.encode("utf-8")
    if kind in ("bytes", "records"):
        return None if x is None else bytes(x)
    if kind == "uuid":
        if x is None:
            return ZERO_UUID
        if x.int == 0:
            raise NotCanonical("zero UUID object")
        return x.bytes
    if kind == "error_code":
        return int(x)
    if kind in ("timedelta_i32", "timedelta_i64"):
        q, r = divmod(x, MS)
        if r:
            raise NotCanonical("sub-ms duration")
        return q
    if kind == "datetime_i64":
        if x is None:
            return None
        q, r = divmod(x - EPOCH, MS)
        if r:
            raise NotCanonical("sub-ms timestamp")
        return q
    raise RefEncodeError(kind)


def _field_from_py(f: FieldDesc, x: object) -> object:
    if f.array:
        if x is None:
            return None
        if f.kind == "struct":
            return [from_entity(f.struct, item) for item in x]
        return [_scalar_from_py(f.kind, item, f.item_nullable) for item in x]
    if f.kind == "struct":
        return None if x is None else from_entity(f.struct, x)
    return _scalar_from_py(f.kind, x, f.nullable)


def from_entity(cd: ClassDesc, x: object) -> dict:
    """Canonical wire tree of a Python instance."""
    tree = {}
    for f in cd.fields:
        v = getattr(x, f.name)
        if f.tag is not None:
            if equals_default(v, default_value(f)):
                tree[f.name] = ABSENT
            else:
                tree[f.name] = Present(_field_from_py(f, v))
        else:
            tree[f.name] = _field_from_py(f, v)
    return tree


def is_canonical(cd: ClassDesc, tree: dict) -> bool:
    if tree.get(UNKNOWN):
        return False
    for f in cd.fields:
        v = tree.get(f.name, ABSENT) if f.tag is not None else tree[f.name]
        if f.tag is not None:
            if v is ABSENT:
                continue
            v = v.value
            if equals_default(_field_to_py(f, v), default_value(f)):
                return False
        if f.kind == "struct" and v is not None:
            items = v if f.array else [v]
            if not all(is_canonical(f.struct, item) for item in items):
                return False
    return True


# --------------------------------------------------------------------------- equality


def equals_default(value: object, default: object) -> bool:
    """Is `value` the default as far as tag elision goes?  Like py_equal, but floats compare numerically
    (Kafka omits a tagged double when `value == default`, so -0.0 counts as the 0.0 default)."""
    if isinstance(value, float) and isinstance(default, float):
        return value == default
    if dataclasses.is_dataclass(value) and not isinstance(value, type):
        return type(value) is type(default) and all(
            equals_default(getattr(value, f.name), getattr(default, f.name)) for f in dataclasses.fields(value)
        )
    if isinstance(value, tuple) and isinstance(default, tuple):
        return len(value) == len(default) and all(equals_default(a, b) for a, b in zip(value, default))
    return py_equal(value, default)


def py_equal(a: object, b: object) -> bool:
    """Structural equality: floats bit-for-bit, bools only equal bools, else ``==``."""
    if isinstance(a, float) or isinstance(b, float):
        return (
            isinstance(a, float)
            and isinstance(b, float)
            and _struct.pack(">d", a) == _struct.pack(">d", b)
        )
    if isinstance(a, bool) != isinstance(b, bool):
        return False
    if dataclasses.is_dataclass(a) and not isinstance(a, type):
        if type(a) is not type(b):
            return False
        return all(
            py_equal(getattr(a, f.name), getattr(b, f.name)) for f in dataclasses.fields(a)
        )
    if isinstance(a, tuple):
        return (
            isinstance(b, tuple)
            and len(a) == len(b)
            and all(py_equal(x, y) for x, y in zip(a, b))
        )
    if a is None or b is None:
        return a is b
    if isinstance(a, str) != isinstance(b, str) or isinstance(a, bytes) != isinstance(b, bytes):
        return False
    return a == b


def first_diff(a: bytes, b: bytes) -> int:
    n = min(len(a), len(b))
    for i in range(n):
        if a[i] != b[i]:
            return i
    return n


# --------------------------------------------------------------------------- JSON for replays


def tree_to_json(v: object) -> object:
    if v is ABSENT:
        return {"$": "absent"}
    if isinstance(v, Present):
        return {"$": "present", "v": tree_to_json(v.value)}
    if isinstance(v, (bytes, bytearray)):
        return {"$": "b", "v": bytes(v).hex()}
    if isinstance(v, dict):
        return {"$": "d", "v": {k: tree_to_json(x) for k, x in v.items()}}
    if isinstance(v, (list, tuple)):
        return [tree_to_json(x) for x in v]
    if v is None or isinstance(v, (int, str, bool)):
        return v
    raise TypeError(f"cannot serialise {v!r}")


def tree_from_json(v: object) -> object:
    if isinstance(v, dict):
        kind = v["$"]
        if kind == "absent":
            return ABSENT
        if kind == "present":
            return Present(tree_from_json(v["v"]))
        if kind == "b":
            return bytes.fromhex(v["v"])
        if kind == "d":
            out = {k: tree_from_json(x) for k, x in v["v"].items()}
            if UNKNOWN in out:
                out[UNKNOWN] = [tuple(e) for e in out[UNKNOWN]]
            return out
    if isinstance(v, list):
        return [tree_from_json(x) for x in v]
    return v


def canonicalize(cd: ClassDesc, tree: dict) -> dict:
    """Drop unknown tags and explicit defaults, recursively (pure tree rewrite)."""
    out = {}
    for f in cd.fields:
        v = tree.get(f.name, ABSENT) if f.tag is not None else tree[f.name]
        wrapped = False
        if f.tag is not None:
            if v is ABSENT:
                out[f.name] = ABSENT
                continue
            v = v.value
            wrapped = True
        if f.kind == "struct" and v is not None:
            v = [canonicalize(f.struct, i) for i in v] if f.array else canonicalize(f.struct, v)
        if wrapped:
            out[f.name] = ABSENT if equals_default(_field_to_py(f, v), default_value(f)) else Present(v)
        else:
            out[f.name] = v
    return out


def zero_tree(cd: ClassDesc, absent_tags: bool = True) -> dict:
    """Deterministic minimal tree: zeros, empty strings/arrays, non-null, tags absent."""
    tree = {}
    for f in cd.fields:
        if f.tag is not None and absent_tags:
            tree[f.name] = ABSENT
            continue
        if f.array:
            v = []
        elif f.kind == "struct":
            v = zero_tree(f.struct, absent_tags)
        elif f.kind == "float64":
            v = bytes(8)
        elif f.kind == "uuid":
            v = ZERO_UUID
        elif f.kind in ("string", "bytes", "records"):
            v = b""
        else:
            v = 0
        tree[f.name] = Present(v) if f.tag is not None else v
    return tree
