"""Driver for properties whose generated case is (class, wire tree, extra): one Hypothesis
run per class, classes sharded over the process pool, failures bucketed by signature and
minimised at tree level."""

from __future__ import annotations

import importlib
import json
from collections import Counter
from dataclasses import dataclass
from typing import Callable

import hypothesis
from hypothesis import HealthCheck, Phase, given, settings
from hypothesis import strategies as st

from . import describe as D
from .engine import Ctx, Failure, HarnessError, Report, case_hash, pool_imap_unordered
from .refcodec import ABSENT, UNKNOWN, ZERO_UUID, Present, tree_from_json, tree_to_json
from .strategies import Profile, tree_labels, tree_strategy


@dataclass
class TreeSpec:
    prop: str
    level: str
    rule: str
    profile: Profile
    # check(cd, tree, extra) -> None | (signature, message) | list of those
    check: Callable
    # nontrivial(cd, tree, labels, extra) -> bool
    nontrivial: Callable
    extra: Callable | None = None  # cd -> strategy
    quick_examples: int = 60
    thorough_examples: int = 300
    quick_extra_classes: int = 150
    class_filter: Callable | None = None  # cd -> bool
    sample_of: Callable | None = None  # (cd, tree, extra) -> JSON-able sample
    assumptions: tuple = ()
    # labels that must reach a floor over the whole run when expressible: {label: min_fraction}
    floors: dict | None = None
    reset: Callable | None = None  # called before each class (clears per-class state of the check)
    tagged_boost: int = 4  # classes that (transitively) have tagged fields get this many times the examples
    size_sweep: bool = False  # deterministic sweep of bytes/records (and unknown-tag payload) sizes, see size_sweep_tasks
    sweep_extra: object = None  # the `extra` handed to check() for sweep cases


NOTES: Counter = Counter()  # side channel: checks call note(key, n); drained per class


def note(key: str, n: int = 1) -> None:
    NOTES[key] += n


def _settings(n: int) -> settings:
    return settings(
        max_examples=n,
        database=None,
        deadline=None,
        derandomize=False,
        phases=[Phase.generate],
        suppress_health_check=list(HealthCheck),
        report_multiple_bugs=False,
    )


def _as_list(res) -> list:
    if res is None:
        return []
    if isinstance(res, tuple):
        return [res]
    return list(res)


def guarded_check(spec: TreeSpec, cd: D.ClassDesc, tree, extra) -> list:
    """spec.check, with one safety net: an exception that escapes the check's own handling AND was raised from inside
    the kio package (the innermost kio frame names it) is reported as a violation of the property whose operations the
    check was performing, instead of aborting the run as a harness error.  Anything else is re-raised."""
    from . import kioapi as K

    try:
        return _as_list(spec.check(cd, tree, extra))
    except Exception as e:  # noqa: BLE001
        sig = K.exc_signature(e)
        if sig.endswith("@?"):
            raise
        return [(f"unexpected-exception:{sig}", f"{cd.path}: an operation of the check raised {e!r} from inside kio ({sig}); "
                 f"the check performs only operations the property says must work")]


def run_one_class(spec: TreeSpec, cd: D.ClassDesc, seed: int, n: int) -> Report:
    rep = Report(prop=spec.prop, level=spec.level, rule=spec.rule)
    extra_strat = spec.extra(cd) if spec.extra else st.none()
    strat = st.tuples(tree_strategy(cd, spec.profile), extra_strat)
    raw_failures: dict[str, tuple] = {}
    NOTES.clear()
    if spec.reset is not None:
        spec.reset()

    def on_case(tree, extra):
        rep.evaluations += 1
        labels = tree_labels(cd, tree)
        rep.labels.update(labels)
        for sig, msg in guarded_check(spec, cd, tree, extra):
            size = len(json.dumps(tree_to_json(tree)))
            cur = raw_failures.get(sig)
            if cur is None or size < cur[0]:
                raw_failures[sig] = (size, tree, extra, msg)
        if spec.nontrivial(cd, tree, labels, extra):
            rep.nontrivial.add(case_hash((cd.path, tree_to_json(tree), repr(extra))))
            rep.labels["nontrivial"] += 1
            if len(rep.samples) < 2 and spec.sample_of is not None:
                rep.samples.append(spec.sample_of(cd, tree, extra))

    @hypothesis.seed(seed)
    @_settings(n)
    @given(strat)
    def test(case):
        on_case(*case)

    test()
    rep.labels["classes"] += 1
    if NOTES:
        rep.extra["counters"] = dict(NOTES)
    for sig, (_size, tree, extra, msg) in raw_failures.items():
        def still(t, sig=sig, extra=extra):
            try:
                return any(s == sig for s, _ in guarded_check(spec, cd, t, extra))
            except Exception:
                return False

        small = minimize_tree(cd, tree, still)
        msgs = [m for s, m in guarded_check(spec, cd, small, extra) if s == sig]
        rep.add_failure(
            Failure(
                signature=sig,
                message=msgs[0] if msgs else msg,
                replay={"class": cd.path, "tree": tree_to_json(small), "extra": _extra_json(extra)},
                size=len(json.dumps(tree_to_json(small))),
            )
        )
    return rep


def _extra_json(extra):
    if isinstance(extra, (bytes, bytearray)):
        return {"$": "b", "v": bytes(extra).hex()}
    if isinstance(extra, (list, tuple)):
        return [_extra_json(e) for e in extra]
    if isinstance(extra, dict):
        return {k: _extra_json(v) for k, v in extra.items()}
    return extra


def extra_from_json(extra):
    if isinstance(extra, dict) and extra.get("$") == "b":
        return bytes.fromhex(extra["v"])
    if isinstance(extra, list):
        return tuple(extra_from_json(e) for e in extra)
    if isinstance(extra, dict):
        return {k: extra_from_json(v) for k, v in extra.items()}
    return extra


def _worker(task) -> Report:
    modname, path, seed, n = task
    spec = importlib.import_module(modname).SPEC
    cd = D.describe(D.resolve(path))
    try:
        rep = run_one_class(spec, cd, seed, n)
    except Exception as e:  # a crash of the harness itself, not of kio
        import traceback

        raise HarnessError(f"{path}: {type(e).__name__}: {e}\n{traceback.format_exc()}") from None
    # keep pickles small
    return rep


def _has_tagged(cd: D.ClassDesc) -> bool:
    return any(f.tag is not None or (f.struct is not None and _has_tagged(f.struct)) for f in cd.fields)


def select_classes(ctx: Ctx, spec: TreeSpec) -> list[D.ClassDesc]:
    if ctx.quick:
        classes = D.quick_class_sample(ctx.seed, spec.quick_extra_classes)
    else:
        classes = list(D.all_classes())
    cds = [D.describe(c) for c in classes]
    if spec.class_filter:
        cds = [cd for cd in cds if spec.class_filter(cd)]
    return cds


def run_tree_property(ctx: Ctx, modname: str, spec: TreeSpec) -> Report:
    cds = select_classes(ctx, spec)
    n = spec.quick_examples if ctx.quick else spec.thorough_examples
    tasks = [
        (modname, cd.path, ctx.subseed(cd.path), n * (spec.tagged_boost if _has_tagged(cd) else 1))
        for cd in cds
    ]
    # biggest classes first for better load balance
    total = Report(prop=spec.prop, level=spec.level, rule=spec.rule)
    total.assumptions = list(spec.assumptions)
    for rep in pool_imap_unordered(_worker, tasks, chunksize=4):
        total.merge(rep)
    if spec.size_sweep:
        sweep = size_sweep_tasks(modname, spec)
        for rep in pool_imap_unordered(_sweep_worker, sweep, chunksize=1):
            total.merge(rep)
        total.extra["size_sweep_tasks"] = len(sweep)
        tcases = tagged_payload_cases(spec)
        for rep in pool_imap_unordered(_tagged_payload_worker, [(modname, tcases[i::16]) for i in range(16) if tcases[i::16]], chunksize=1):
            total.merge(rep)
        total.extra["tagged_payload_cases"] = len(tcases)
        acases = array_sweep_cases(spec)
        for rep in pool_imap_unordered(_array_sweep_worker, [(modname, acases[i::32]) for i in range(32) if acases[i::32]], chunksize=1):
            total.merge(rep)
        total.extra["array_sweep_cases"] = len(acases)
    total.extra["classes_covered"] = len(cds)
    total.extra["examples_per_class"] = n
    total.extra["profile"] = spec.profile.name
    if spec.floors:
        for label, floor in spec.floors.items():
            got = total.labels.get(label, 0)
            if got < floor * total.evaluations:
                raise HarnessError(
                    f"generator health: label {label!r} seen in {got}/{total.evaluations} cases, "
                    f"floor is {floor:.3%}"
                )
    return total


# --------------------------------------------------------------------------- deterministic size sweep
# Sizes at which a length prefix changes width (length + 1 = 2^7, 2^14, 2^21 for compact fields) and sizes that are exact
# multiples of the block sizes chunked I/O code likes (64 KiB .. 16 MiB).  Random generation reaches them with
# negligible probability, so the tree properties visit them by enumeration for a few classes of each shape.
SWEEP_SIZES = (126, 127, 128, 129, 16382, 16383, 16384, 16385, 32767, 32768, 65535, 65536, 2097150, 2097151, 2097152, 2097153,
               1 << 20, 1 << 22, 1 << 23,
               # decimal and Kafka-configuration sizes: 10^6, message.max.bytes (1048588), 5 and 10 MiB, 10^7
               1000000, 1048588, 5 << 20, 10 << 20, 10000000)
# 12, 16, 16+, 32, 48 MiB and 20, 30, 50 MiB (fetch.max.bytes = 52428800): two classes per shape only
SWEEP_SIZES_BIG = (3 << 22, 1 << 24, (1 << 24) + 1, 1 << 25, 3 << 24, 20 << 20, 30 << 20, 50 << 20)


def _blob_paths(cd: D.ClassDesc, depth: int = 0):
    """paths (tuples of field names) to bytes/records fields, through structs and one-item struct arrays"""
    for f in cd.fields:
        if f.kind in ("bytes", "records") and not f.array:
            yield (f.name,), f
        elif f.kind == "struct" and depth < 3:
            for sub, g in _blob_paths(f.struct, depth + 1):
                yield (f.name,) + sub, g


def sweep_tree(cd: D.ClassDesc, path: tuple, blob: bytes) -> dict:
    from .refcodec import zero_tree

    tree = zero_tree(cd)
    node, c = tree, cd
    for i, name in enumerate(path):
        f = next(x for x in c.fields if x.name == name)
        if i == len(path) - 1:
            node[name] = Present(blob) if f.tag is not None else blob
            break
        child = zero_tree(f.struct)
        v = [child] if f.array else child
        node[name] = Present(v) if f.tag is not None else v
        node, c = child, f.struct
    return tree


def size_sweep_targets(spec: TreeSpec) -> list[tuple[str, tuple, bool]]:
    """-> [(class path, field path or ("__unknown__",), with_big_sizes)]: per shape (flexible?, kind, nullable, nested?) the
    first three classes in path order (the sizes of 12 MiB and more only for the first class of each (flexible?, kind)); two classes per
    tagged-fields-or-not for unknown-tag payloads."""
    seen: Counter = Counter()
    out = []
    for cls in D.all_classes():
        cd = D.describe(cls)
        if spec.class_filter and not spec.class_filter(cd):
            continue
        for path, f in _blob_paths(cd):
            shape = (cd.flexible, f.kind, f.nullable, len(path) > 1, f.tag is not None)
            if seen[shape] < 3:
                seen[shape] += 1
                coarse = ("big", cd.flexible, f.kind)  # the 12..50 MiB sizes: first class of each (flexible?, kind) only
                seen[coarse] += 1
                out.append((cd.path, path, seen[coarse] == 1))
            break
        if spec.profile.unknown_tags and cd.flexible and not cd.is_request_header:
            shape = ("unknown", bool(cd.tagged_fields))
            if seen[shape] < 2:
                seen[shape] += 1
                out.append((cd.path, (UNKNOWN,), seen[shape] == 1))
    return out


def _sweep_worker(task) -> Report:
    modname, path, fpath, sizes = task
    spec = importlib.import_module(modname).SPEC
    cd = D.describe(D.resolve(path))
    rep = Report(prop=spec.prop, level=spec.level, rule=spec.rule)
    NOTES.clear()
    if spec.reset is not None:
        spec.reset()
    for n in sizes:
        blob = (b"kio-sweep-" * (n // 10 + 1))[:n]
        if fpath == (UNKNOWN,):
            from .refcodec import zero_tree

            tree = zero_tree(cd)
            known = {f.tag for f in cd.tagged_fields}
            tree[UNKNOWN] = [(max(known | {0}) + 1, blob)]
        else:
            tree = sweep_tree(cd, fpath, blob)
        rep.evaluations += 1
        rep.labels["size_sweep"] += 1
        rep.nontrivial.add(case_hash((cd.path, fpath, n)))
        try:
            res = guarded_check(spec, cd, tree, spec.sweep_extra)
        except Exception as e:
            import traceback

            raise HarnessError(f"size sweep {path} {fpath} {n}: {type(e).__name__}: {e}\n{traceback.format_exc()}") from None
        for sig, msg in res:
            rep.add_failure(Failure(signature=f"{sig}", message=f"[size sweep: {'.'.join(fpath)} = {n} bytes] {msg}"[:4000],
                                    replay={"class": cd.path, "sweep": {"path": list(fpath), "size": n}, "extra": _extra_json(spec.sweep_extra)},
                                    size=n))
    return rep


# ---- tagged fields whose ENCODED VALUE has a given size (the size prefix of a tagged field is a varint of its own)
TAGGED_PAYLOAD_SIZES = (126, 127, 128, 129, 255, 256, 16383, 16384, 16385)


def _leaf_path(c: D.ClassDesc, depth: int = 0):
    for g in c.fields:
        if g.tag is None and not g.array and g.kind in ("string", "bytes") and not g.nullable:
            return (g.name,)
    for g in c.fields:
        if g.tag is None and not g.array and g.kind == "struct" and depth < 2:
            sub = _leaf_path(g.struct, depth + 1)
            if sub:
                return (g.name,) + sub
    return None


def tagged_payload_tree(cd: D.ClassDesc, f, size: int):
    """A tree of cd in which tagged field f (a struct or an array of structs that contains a string somewhere) is present
    with an encoded value of exactly `size` bytes; None if that cannot be arranged."""
    from .refcodec import ref_encode, uvarint, zero_tree

    leaf = _leaf_path(f.struct)
    if leaf is None:
        return None

    def build(n_leaf: int, extra_items: int):
        item = zero_tree(f.struct)
        node = item
        for name in leaf[:-1]:
            node = node[name]
        node[leaf[-1]] = b"t" * n_leaf
        v = [item] + [zero_tree(f.struct) for _ in range(extra_items)] if f.array else item
        tree = zero_tree(cd)
        tree[f.name] = Present(v)
        return tree

    absent = len(ref_encode(cd, zero_tree(cd)))

    def payload(tree) -> int:
        total = len(ref_encode(cd, tree)) - absent - len(uvarint(f.tag))
        for p in (total - 1, total - 2, total - 3):  # total = payload + len(uvarint(payload))
            if p >= 0 and p + len(uvarint(p)) == total:
                return p
        return -1

    for extra in ((0, 1, 2) if f.array else (0,)):
        n = 0
        for _ in range(6):
            try:
                tree = build(n, extra)
                got = payload(tree)
            except Exception:
                break
            if got == size:
                return tree
            n += size - got
            if n < 0:
                break
    return None


def tagged_payload_cases(spec: TreeSpec) -> list[tuple[str, str, int]]:
    out = []
    for cls in D.all_classes():
        cd = D.describe(cls)
        if spec.class_filter and not spec.class_filter(cd):
            continue
        for f in cd.fields:
            if f.tag is not None and f.kind == "struct" and _leaf_path(f.struct) is not None:
                out.extend((cd.path, f.name, n) for n in TAGGED_PAYLOAD_SIZES)
    return out


def _tagged_payload_worker(task) -> Report:
    modname, cases = task
    spec = importlib.import_module(modname).SPEC
    rep = Report(prop=spec.prop, level=spec.level, rule=spec.rule)
    NOTES.clear()
    for path, fname, n in cases:
        cd = D.describe(D.resolve(path))
        if spec.reset is not None:
            spec.reset()
        f = next(x for x in cd.fields if x.name == fname)
        tree = tagged_payload_tree(cd, f, n)
        if tree is None:
            rep.labels["tagged_payload_unreachable"] += 1
            continue
        rep.evaluations += 1
        rep.labels["tagged_payload_sweep"] += 1
        rep.nontrivial.add(case_hash((path, fname, n)))
        for sig, msg in guarded_check(spec, cd, tree, spec.sweep_extra):
            rep.add_failure(Failure(signature=sig, message=f"[tagged field {fname} with an encoded value of exactly {n} bytes] {msg}"[:4000],
                                    replay={"class": path, "tree": tree_to_json(tree), "extra": _extra_json(spec.sweep_extra)}, size=n))
    return rep


# ---- arrays of MANY MINIMAL items (empty strings, zeros, zero structs): the smallest encoding an array of n items can have
ARRAY_SWEEP_LENGTHS = (127, 128, 255, 256, 257, 1023, 1024, 1025, 4096, 16383, 16384)


def array_sweep_cases(spec: TreeSpec) -> list[tuple[str, str, int, int]]:
    """(class, top-level array field, length, flavour) for the first two classes of each (flexible?, item kind, nullable?);
    flavour 0 = minimal items, 1 = one-character / value-1 items"""
    seen: Counter = Counter()
    out = []
    for cls in D.all_classes():
        cd = D.describe(cls)
        if spec.class_filter and not spec.class_filter(cd):
            continue
        for f in cd.fields:
            if not f.array or f.tag is not None:
                continue
            shape = (cd.flexible, f.kind, f.nullable)
            if seen[shape] >= 2:
                continue
            seen[shape] += 1
            for n in ARRAY_SWEEP_LENGTHS:
                if f.kind == "struct" and n > 4096:
                    continue
                out.append((cd.path, f.name, n, 0))
                if f.kind in ("string", "bytes", "int32", "int64", "int16", "int8"):
                    out.append((cd.path, f.name, n, 1))
    return out


def array_sweep_tree(cd: D.ClassDesc, fname: str, n: int, flavour: int) -> dict:
    from .refcodec import ZERO_UUID, zero_tree

    f = next(x for x in cd.fields if x.name == fname)
    if f.kind == "struct":
        item = zero_tree(f.struct)
    elif f.kind in ("string", "bytes", "records"):
        item = b"a" if flavour else b""
    elif f.kind == "uuid":
        item = bytes(15) + b"\x01"
    elif f.kind == "float64":
        item = bytes(8)
    else:
        item = 1 if flavour else 0
    tree = zero_tree(cd)
    tree[fname] = [item] * n
    return tree


def _array_sweep_worker(task) -> Report:
    modname, cases = task
    spec = importlib.import_module(modname).SPEC
    rep = Report(prop=spec.prop, level=spec.level, rule=spec.rule)
    NOTES.clear()
    for path, fname, n, flavour in cases:
        cd = D.describe(D.resolve(path))
        if spec.reset is not None:
            spec.reset()
        tree = array_sweep_tree(cd, fname, n, flavour)
        rep.evaluations += 1
        rep.labels["array_sweep"] += 1
        rep.nontrivial.add(case_hash((path, fname, n, flavour)))
        for sig, msg in guarded_check(spec, cd, tree, spec.sweep_extra):
            rep.add_failure(Failure(signature=sig, message=f"[array {fname} of {n} {'minimal' if not flavour else 'one-unit'} items] {msg}"[:4000],
                                    replay={"class": path, "array_sweep": [fname, n, flavour], "extra": _extra_json(spec.sweep_extra)}, size=n))
    return rep


def size_sweep_tasks(modname: str, spec: TreeSpec) -> list:
    tasks = []
    for path, fpath, big in size_sweep_targets(spec):
        tasks.append((modname, path, fpath, SWEEP_SIZES))
        if big:
            for n in SWEEP_SIZES_BIG:
                tasks.append((modname, path, fpath, (n,)))
    return tasks


def replay_tree_case(spec: TreeSpec, case: dict) -> list:
    if "array_sweep" in case:
        cd = D.describe(D.resolve(case["class"]))
        fname, n, flavour = case["array_sweep"]
        return guarded_check(spec, cd, array_sweep_tree(cd, fname, n, flavour), extra_from_json(case.get("extra")))
    if "sweep" in case:
        cd = D.describe(D.resolve(case["class"]))
        fpath, n = tuple(case["sweep"]["path"]), case["sweep"]["size"]
        blob = (b"kio-sweep-" * (n // 10 + 1))[:n]
        if fpath == (UNKNOWN,):
            from .refcodec import zero_tree

            tree = zero_tree(cd)
            tree[UNKNOWN] = [(max({f.tag for f in cd.tagged_fields} | {0}) + 1, blob)]
        else:
            tree = sweep_tree(cd, fpath, blob)
        return guarded_check(spec, cd, tree, extra_from_json(case.get("extra")))
    cd = D.describe(D.resolve(case["class"]))
    tree = tree_from_json(case["tree"])
    extra = extra_from_json(case.get("extra"))
    return guarded_check(spec, cd, tree, extra)


# --------------------------------------------------------------------------- minimiser


def _scalar_variants(kind: str, v):
    if v is None:
        return
    if isinstance(v, bool):
        return
    if isinstance(v, int):
        for c in (0, 1, -1, v // 2, v - 1 if v > 0 else v + 1):
            if c != v and abs(c) <= abs(v):
                yield c
    elif isinstance(v, (bytes, bytearray)):
        if kind == "uuid":
            if v != ZERO_UUID:
                yield ZERO_UUID
                yield bytes(15) + b"\x01"
        elif kind == "float64":
            if v != bytes(8):
                yield bytes(8)
                yield bytes.fromhex("3ff0000000000000")
        else:
            if len(v) > 0:
                yield b""
                if len(v) > 1:
                    yield v[: len(v) // 2]
                    yield v[:1]
                    yield b"a" * len(v)


def _field_variants(cd, f, v):
    """Yield simpler wire values for a (non-tag-wrapped) field value."""
    if v is None:
        return
    if f.nullable and f.kind != "uuid":
        yield None
    if f.array:
        if len(v) > 0:
            yield []
            if len(v) > 4:
                yield v[: len(v) // 2]
                yield v[len(v) // 2 :]
                yield v[:-1]
                yield v[1:]
            if len(v) > 16:  # long arrays: per-item variants only for the first few items
                for i in range(4):
                    yield v[:i] + v[i + 1 :]
                return
            for i in range(len(v)):
                yield v[:i] + v[i + 1 :]
            for i, item in enumerate(v):
                if f.kind == "struct":
                    for sub in tree_variants(f.struct, item):
                        yield v[:i] + [sub] + v[i + 1 :]
                else:
                    for sub in _scalar_variants(f.kind, item):
                        yield v[:i] + [sub] + v[i + 1 :]
        return
    if f.kind == "struct":
        yield from tree_variants(f.struct, v)
        return
    yield from _scalar_variants(f.kind, v)


def tree_variants(cd: D.ClassDesc, tree: dict):
    if tree.get(UNKNOWN):
        unk = tree[UNKNOWN]
        t = dict(tree)
        del t[UNKNOWN]
        yield t
        for i in range(len(unk)):
            t = dict(tree)
            t[UNKNOWN] = unk[:i] + unk[i + 1 :]
            yield t
            if unk[i][1]:
                t = dict(tree)
                t[UNKNOWN] = unk[:i] + [(unk[i][0], b"")] + unk[i + 1 :]
                yield t
    for f in cd.fields:
        v = tree.get(f.name, ABSENT) if f.tag is not None else tree[f.name]
        if f.tag is not None:
            if v is ABSENT:
                continue
            t = dict(tree)
            t[f.name] = ABSENT
            yield t
            for sub in _field_variants(cd, f, v.value):
                t = dict(tree)
                t[f.name] = Present(sub)
                yield t
        else:
            for sub in _field_variants(cd, f, v):
                t = dict(tree)
                t[f.name] = sub
                yield t


def minimize_tree(cd: D.ClassDesc, tree: dict, still_fails: Callable, budget: int = 600) -> dict:
    calls = 0
    improved = True
    while improved and calls < budget:
        improved = False
        for cand in tree_variants(cd, tree):
            calls += 1
            if calls > budget:
                break
            if still_fails(cand):
                tree = cand
                improved = True
                break
    return tree
