"""Per-property manifest entries (source for tools/gen_manifest.py)."""

NOTES = (
    "All checks: ./check <ID> quick|thorough, VERIF_SEED-driven, PYTHONHASHSEED pinned, exit 2 = harness "
    "error (never a VIOLATION). Genuine defects found and repaired with fix: commits are listed in "
    "known_findings.json; open findings print KNOWN-FINDING lines."
)
NOT_APPLICABLE = {}
CHECKS = {
    "C01": {
        "level": "exploration",
        "technique": "property-based testing (Hypothesis), round-trip oracle, per-class enumeration plus a deterministic sweep of length-prefix and block-size boundaries",
        "text": "Every entity class (all 1629 in thorough; in quick a shape set-cover + all headers + all 36 tag-bearing classes + a seeded sample) gets its own seeded Hypothesis run over boundary-biased canonical instances (special code points, named DST zones, all-defaults nested structs, 32768-byte legacy strings that must be refused); encode, append a drawn tail, decode; the decoded value must equal the original and exactly the encoder's bytes must be consumed. Sampling of an infinite value space, complete enumeration of classes in thorough.",
        "design_ref": "DESIGN.md 2/C01",
        "note": "Round trip is kio against kio; instances are built from generated wire trees by kv.refcodec.to_entity. No absence claim.",
    },
    "C02": {
        "level": "exploration",
        "technique": "property-based differential testing against an independent reference encoder",
        "text": "Same case space as C01; entity_writer output is compared byte for byte with kv.refcodec.ref_encode, an independent implementation of the Kafka protocol text that shares no code with kio.serial, so symmetric reader+writer errors that survive any round trip are caught.",
        "design_ref": "DESIGN.md 2/C02",
        "note": "Trusted base: kv/refcodec.py and kv/describe.py (own reflection over dataclass fields).",
    },
    "C03": {
        "level": "exploration",
        "technique": "wire-first property-based testing: reference-encoded conforming inputs incl. explicit defaults and unknown tags",
        "text": "Wire trees over the full wire domain, with tagged fields absent/present/explicit-default and unknown tags at every nesting level, are encoded by the reference encoder and decoded by kio; the result must equal the independently computed expected value and exhaust the input.",
        "design_ref": "DESIGN.md 2/C03",
        "note": "Error codes restricted to the shipped table; durations to the timedelta-representable range.",
    },
    "C05": {
        "level": "exploration",
        "technique": "wire-first property-based testing: decode->encode against reference canonical bytes, idempotence on accepted inputs",
        "text": "Reference-encoded canonical trees over the full wire domain (biased to lossy-prone values: non-zero ms, |duration|>2^53 ms, -0.0, NaN payloads, max-length strings, zero/non-zero UUIDs) must be reproduced bit for bit by kio decode->encode; non-canonical accepted encodings must be re-encodable and idempotent under decode->encode.",
        "design_ref": "DESIGN.md 2/C05",
        "note": "Canonical bytes come from kv.refcodec; sampling of an infinite domain.",
    },
    "C06": {
        "level": "fault_enumeration",
        "technique": "property-based instance generation x exhaustive enumeration of every truncation point; request headers enumerated over every real API key",
        "text": "For each generated instance every strict prefix (all cut positions 0..len-1) is decoded from a read-only, call-counting source; only BufferUnderflow is accepted. Cuts are enumerated completely per instance; instances are sampled per class; request headers are additionally enumerated over every API key of the package x versions x client ids, every cut.",
        "design_ref": "DESIGN.md 2/C06",
        "note": "Encodings capped at 4096 bytes; hang detection by read-call budget (2*len+8), not wall clock.",
    },
    "C08": {
        "level": "exploration",
        "technique": "exhaustive enumeration of all request/response classes against an independent implementation of the Kafka header rule and pinned facts",
        "text": "All 323+323 payload classes are checked (finite, complete): header schema by identity against an own implementation of Kafka's rule fed from pinned api keys / first flexible versions, key and flexibility agreement of each pair, and mutual inverseness of the request<->response mapping for classes and instances.",
        "design_ref": "DESIGN.md 2/C08",
        "note": "Pins (fixtures/kafka-3.9.0-pins.json) are hand-reviewed Kafka 3.9.0 facts; they are the trusted base.",
    },
    "C09": {
        "level": "exploration",
        "technique": "exhaustive enumeration of the valid index domain + near-miss enumeration + Hypothesis-drawn arbitrary arguments",
        "text": "Every on-disk module and every api key is resolved through all lookup functions and compared by identity with the module/class found by an independent disk walk; disk set == index set; every one-step-outside argument and thousands of arbitrary ints/strings must raise exactly the documented errors.",
        "design_ref": "DESIGN.md 2/C09",
        "note": "entity_type arguments are EntityType members; bool is not used for int arguments.",
    },
    "C13": {
        "level": "exploration",
        "technique": "exhaustive enumeration of all classes x fields against a rule set evaluated through independent reflection",
        "text": "All 1629 classes / 5094 fields are checked against the coherence rules (kafka_type vs annotation, nullability, tuple arrays, defaults inhabit the type, tags unique/non-negative/flexible-only with resolvable default agreeing with kio's own resolution), and reader+writer are derived and exercised on zero and defaults-only instances.",
        "design_ref": "DESIGN.md 2/C13",
        "note": "Finite space, fully enumerated on every run.",
    },
    "C14": {
        "level": "exploration",
        "technique": "exhaustive enumeration of all version modules and (API, type) families against structural rules and pinned version ranges",
        "text": "All 666 modules and 186 families: shared class variables per module, path vs class identity (own snake-casing), contiguity, monotone flexibility, constant and unique api key, equal request/response version sets, all compared with the pins.",
        "design_ref": "DESIGN.md 2/C14",
        "note": "Pins are the trusted base for ranges and first flexible versions.",
    },
    "C11": {
        "level": "exploration",
        "technique": "differential testing of every primitive reader/writer against reference encoders; exhaustive on small domains, boundary + Hypothesis beyond",
        "text": "All 66 public primitive functions are paired with reference implementations that share no code with kio (int.to_bytes, own LEB128/zig-zag, IEEE-754 bits via frexp). 8/16-bit domains and varints below 2^14 (quick) / 2^21 (thorough) are enumerated completely, as are all byte strings up to 2 (quick) / 3 (thorough) bytes as varint input; larger domains by every power-of-two neighbourhood plus Hypothesis draws; out-of-domain values must raise without emitting bytes.",
        "design_ref": "DESIGN.md 2/C11",
        "note": "Varint writers are not driven outside their domain (not claimed length-limited); NaN payloads not compared on the writer side.",
    },
    "C12": {
        "level": "exploration",
        "technique": "boundary-value enumeration + Hypothesis draws against a pinned table of documented ranges; writer/reader round trip for members",
        "text": "Membership (isinstance), constructor identity/TypeError and range nesting are compared with expectations computed from a hard-coded table of the documented ranges for every value within +-2 of any limit of any type, +-2^k magnitudes, float classes, us-offset durations and datetimes in several zones; every member is pushed through its writer and reader.",
        "design_ref": "DESIGN.md 2/C12",
        "note": "The range table in kv/props/c12.py is the trusted statement of the documented domains.",
    },
    "C17": {
        "level": "exploration",
        "technique": "property-based testing with an independent strict v2 batch decoder (own varints, pure-Python CRC-32C) as oracle",
        "text": "Generated NewRecordBatch values (non-monotone offsets/timestamps, null/empty/large keys, values, headers, full-range parameters) are written by kio and parsed by kv.refbatch; every derived header field, the CRC coverage, every length prefix and every record must be recovered exactly.",
        "design_ref": "DESIGN.md 2/C17",
        "note": "Trusted base: kv/refbatch.py, validated against the four real-broker batches shipped in tests/records/fixtures.py. Whole-millisecond timestamps only.",
    },
    "C18": {
        "level": "fault_enumeration",
        "technique": "reference-encoded batches x exhaustive enumeration of every single-bit flip, truncation point and wrong magic value",
        "text": "Each reference-encoded batch (0-5 records) and each real-broker batch is read intact (fields and records equal, write-back reproduces bytes) and under every single-bit flip from the CRC field to the end, every truncation length and every wrong magic byte; each damaged input must raise. Faults are enumerated completely per batch; batches are sampled.",
        "design_ref": "DESIGN.md 2/C18",
        "note": "Open known finding K-C18-subsecond-record-timestamps (reader truncates to seconds, pinned by an existing test): excluded from the main identity search by construction and probed separately.",
    },
    "C10": {
        "level": "exploration",
        "technique": "property-based structure-aware mutation of reference encodings + random bytes; coverage-guided fuzzing (atheris/libFuzzer) in thorough; counted cost bounds plus a CPU-time scaling comparison of valid inputs at two sizes",
        "text": "Per class, random byte strings and reference encodings damaged by 1-4 offset-map-guided edits (length prefixes, varint continuation bits, tag numbers/sizes, markers; hostile lengths) are decoded under a Python-call and read-call budget linear in the input and an address-space cap; any exception outside SerialError/ValueError/OverflowError, any budget overrun, over-consumption, or a returned entity that cannot be re-encoded idempotently is a violation. Thorough adds 16 atheris processes with the same oracle inside the target.",
        "design_ref": "DESIGN.md 2/C10",
        "note": "Cost is counted (sys.setprofile call events, read calls), never timed; memory blow-ups surface as MemoryError through RLIMIT_AS=3 GiB.",
    },
    "C07": {
        "level": "exploration",
        "technique": "property-based testing over generated message sequences with instrumented sinks/sources; concatenation (metamorphic) oracle",
        "text": "Generated conversations of header+payload messages of arbitrary classes with leading/trailing junk are written through one of six sink kinds (incl. a real OS socket and a queueing sink that never copies, the latter on every case) and read back through one of four source kinds (the strict read-only source on every case); bytes must equal the concatenation of the parts encoded alone, values and stop positions must match, and the instrumented streams reject anything but sequential write(bytes) / read(n>=0).",
        "design_ref": "DESIGN.md 2/C07",
        "note": "Stream kinds are emulations (recording asyncio transport, non-seekable raw stream with short reads), not real sockets.",
    },
    "C15": {
        "level": "exploration",
        "technique": "property-based testing of value-object laws (immutability, eq/hash, copy/replace/pickle) on harness-built and decoder-built instances; all classes enumerated",
        "text": "Generated instances (and what entity_reader constructs for their encodings) of sampled classes, the zero instance and a fully populated instance of EVERY class (each field perturbed in turn, dataclass field options inspected), and the four record classes are checked against the value-object laws: mutation rejected, no __dict__, immutable reachable values, equality iff fields equal (single-field perturbation), hash consistency, copy/deepcopy/replace/pickle(2-5) give equal new instances and leave the original unchanged.",
        "design_ref": "DESIGN.md 2/C15",
        "note": "NaN floats are outside the canonical domain.",
    },
    "C19": {
        "level": "exploration",
        "technique": "stateful (rule-based) property testing for histories, exhaustive fault-position injection, a deterministic line-granularity thread scheduler with drawn and exhaustively swept preemptions, and enumeration of creation orders in fresh processes",
        "text": "Three generated dimensions against one oracle (result == pristine result == reference encoding): Hypothesis RuleBasedStateMachine histories (pools always contain two versions of a same-named class) over create/clear/encode/decode/truncated/invalid/faulty-stream operations with an invariant after every step; every write/read position of sampled (class, value) pairs injected with an I/O error followed by a clean call on the same closure; and 2-3 threads run under a harness-owned scheduler (sys.settrace in src/kio, token passing) over drawn schedules of <=3 preemptions plus an exhaustive single-preemption sweep over every step of fixed programs.",
        "design_ref": "DESIGN.md 2/C19",
        "note": "Interleavings at source-line granularity (C calls atomic), threads <= 3, preemptions <= 3 (1 in the exhaustive sweeps); histories and (class, value) pairs are sampled.",
    },
    "C04": {
        "level": "exploration",
        "technique": "exhaustive differential comparison: current generator run on a committed definition fixture vs the shipped package vs independent pins",
        "text": "The current code generator is executed in a scratch tree on the committed 186-definition fixture; all 1629 generated classes (fields, order, annotations, kafka_type, tags, defaults, class vars, header schema, dataclass options), package exports, custom types, the error-code enum and the index tables are compared entry by entry with the shipped package, and both with hand-reviewed pins. The space is finite and enumerated completely on every run, so neither a hand edit of a generated module nor a generator change can pass silently.",
        "design_ref": "DESIGN.md 2/C04",
        "note": "The fixture was reconstructed once from the baseline package (upstream JSON unreachable offline) and accepted because generator(fixture)==package held; it pins what the baseline encodes. Docstrings/formatting not compared.",
    },
    "C16": {
        "level": "exploration",
        "technique": "grammar-based property testing over generated message definitions (programs), pushed through the real generator; independent definition reader + definition-driven reference encoder as oracle",
        "text": "Hypothesis generates batches of message definitions from a grammar of the upstream JSON format; the real generator main()s run on them in a scratch tree; a child process imports every generated module and compares, per declared version, the class set, field names/order, annotations, kafka_type, tags, explicit and effective tagged defaults, class vars, api key and header with kv.defspec (an independent reading of the definition, itself validated against all 5094 shipped fields), checks entity_writer bytes on the generated classes against a reference encoding driven by the definition, and the generated index against the generated modules.",
        "design_ref": "DESIGN.md 2/C16",
        "note": "Grammar restricted to constructs of the 3.9.0 definitions and their recombinations (exclusions listed in DESIGN.md); kio's representation conventions are taken as expected. Open known finding K-C16-nullable-primitive-arrays is excluded from the main search and probed separately.",
    },
}
