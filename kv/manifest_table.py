"""Per-property manifest entries (source for tools/gen_manifest.py)."""

NOTES = (
    "All checks: ./check <ID> quick|thorough, VERIF_SEED-driven, PYTHONHASHSEED pinned, exit 2 = harness "
    "error (never a VIOLATION). Genuine defects found and repaired with fix: commits are listed in "
    "known_findings.json; open findings print KNOWN-FINDING lines."
)
NOT_APPLICABLE = {}
CHECKS = {
    "C01": {
        "level": "exploration",
        "technique": "property-based testing (Hypothesis), round-trip oracle, per-class enumeration",
        "text": "Every entity class (all 1629 in thorough) gets its own seeded Hypothesis run over boundary-biased canonical instances; encode, append a drawn tail, decode; the decoded value must equal the original and exactly the encoder's bytes must be consumed. Sampling of an infinite value space, complete enumeration of classes.",
        "design_ref": "DESIGN.md 2/C01",
        "note": "Round trip is kio against kio; instances are built from generated wire trees by kv.refcodec.to_entity. No absence claim.",
    },
    "C02": {
        "level": "exploration",
        "technique": "property-based differential testing against an independent reference encoder",
        "text": "Same case space as C01; entity_writer output is compared byte for byte with kv.refcodec.ref_encode, an independent implementation of the Kafka protocol text that shares no code with kio.serial, so symmetric reader+writer errors that survive any round trip are caught.",
        "design_ref": "DESIGN.md 2/C02",
        "note": "Trusted base: kv/refcodec.py and kv/describe.py (own reflection over dataclass fields).",
    },
    "C03": {
        "level": "exploration",
        "technique": "wire-first property-based testing: reference-encoded conforming inputs incl. explicit defaults and unknown tags",
        "text": "Wire trees over the full wire domain, with tagged fields absent/present/explicit-default and unknown tags at every nesting level, are encoded by the reference encoder and decoded by kio; the result must equal the independently computed expected value and exhaust the input.",
        "design_ref": "DESIGN.md 2/C03",
        "note": "Error codes restricted to the shipped table; durations to the timedelta-representable range.",
    },
}
