#!/venv/bin/python
"""atheris (libFuzzer) driver for C10.  Run as:  python -m kv.fuzz_c10 <shard> <nshards> <outdir> [libFuzzer args]

The oracle lives inside the target (kv.props.c10.check_bytes).  Failures do not crash the fuzzer: they are
bucketed by signature into <outdir>/findings.json together with the smallest input seen, so the campaign
continues behind a first finding.  Stats are flushed periodically because atexit does not run under atheris.
"""

from __future__ import annotations

import json
import os
import sys
import time


def main() -> None:
    shard, nshards, outdir = int(sys.argv[1]), int(sys.argv[2]), sys.argv[3]
    fuzz_args = sys.argv[4:]
    import atheris

    with atheris.instrument_imports(include=["kio.serial"]):
        import kio.serial  # noqa: F401
        import kio.serial._parse  # noqa: F401
        import kio.serial.readers  # noqa: F401

    from kv import describe as D
    from kv.engine import case_hash
    from kv.props import c10
    from kv.refcodec import ref_encode, zero_tree

    classes = [D.describe(c) for c in D.all_classes()][shard::nshards]
    n = len(classes)
    corpus = os.path.join(outdir, "corpus")
    os.makedirs(corpus, exist_ok=True)
    for i, cd in enumerate(classes):
        for j, tree in enumerate((zero_tree(cd), zero_tree(cd, absent_tags=False))):
            try:
                data = i.to_bytes(2, "big") + ref_encode(cd, tree)
            except Exception:
                continue
            with open(os.path.join(corpus, f"seed-{i}-{j}"), "wb") as fh:
                fh.write(data)
    stats = {"execs": 0, "accepted": 0, "rejected": 0, "past_first_read": 0, "distinct_nontrivial": 0, "classes": n, "t0": time.time()}
    findings: dict[str, dict] = {}
    seen: set[int] = set()
    samples: list = []

    def flush() -> None:
        stats["wall_s"] = round(time.time() - stats["t0"], 1)
        with open(os.path.join(outdir, "stats.json.tmp"), "w") as fh:
            json.dump({"stats": stats, "findings": findings, "samples": samples}, fh)
        os.replace(os.path.join(outdir, "stats.json.tmp"), os.path.join(outdir, "stats.json"))

    def one(data: bytes) -> None:
        if len(data) < 2:
            return
        cd = classes[int.from_bytes(data[:2], "big") % n]
        payload = data[2:]
        fails, outcome, reads = c10.check_bytes(cd, payload)
        stats["execs"] += 1
        stats["accepted" if outcome == "returned" else "rejected"] += 1
        if reads >= 2:
            stats["past_first_read"] += 1
            if len(seen) < 3_000_000:
                h = case_hash((cd.path, payload))
                if h not in seen:
                    seen.add(h)
                    stats["distinct_nontrivial"] += 1
            if len(samples) < 4 and len(payload) > 4:
                samples.append({"class": cd.path, "input": payload.hex()[:200], "outcome": outcome})
        for sig, msg in fails:
            cur = findings.get(sig)
            if cur is None or len(payload) < len(bytes.fromhex(cur["input"])):
                findings[sig] = {"class": cd.path, "input": payload.hex(), "message": msg[:1500]}
                flush()
        if stats["execs"] % 2000 == 0:
            flush()

    flush()
    dirs = [corpus]
    atheris.Setup([sys.argv[0]] + fuzz_args + dirs, one)
    atheris.Fuzz()


if __name__ == "__main__":
    main()
