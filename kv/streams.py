"""Instrumented sinks and sources."""

from __future__ import annotations

import asyncio


class StreamProtocolViolation(Exception):
    """The code under test used the stream in a way the property forbids."""


class ReadBudgetExceeded(Exception):
    pass


class ReadOnlySource:
    """Only ``read(n)`` with an int n >= 0.  Everything else is a protocol violation."""

    def __init__(self, data: bytes, max_reads: int | None = None, strict_sizes: bool = True):
        object.__setattr__(self, "_d", bytes(data))
        object.__setattr__(self, "_p", 0)
        object.__setattr__(self, "sizes", [])
        object.__setattr__(self, "_max", max_reads)
        object.__setattr__(self, "_strict", strict_sizes)

    def read(self, *args, **kwargs):
        if kwargs or len(args) != 1:
            raise StreamProtocolViolation(f"source.read called with args={args!r} kwargs={kwargs!r}")
        n = args[0]
        if isinstance(n, bool) or not isinstance(n, int):
            raise StreamProtocolViolation(f"source.read({n!r}): size is not an int")
        if n < 0:
            if self._strict:
                raise StreamProtocolViolation(f"source.read({n}): negative size (read-to-EOF)")
            n = len(self._d) - self._p
        self.sizes.append(n)
        if self._max is not None and len(self.sizes) > self._max:
            raise ReadBudgetExceeded(f"more than {self._max} read calls")
        out = self._d[self._p : self._p + n]
        object.__setattr__(self, "_p", self._p + len(out))
        return out

    @property
    def consumed(self) -> int:
        return self._p

    def __getattr__(self, name):
        raise StreamProtocolViolation(f"source.{name} accessed")

    def __setattr__(self, name, value):
        raise StreamProtocolViolation(f"source.{name} assigned")


class WriteOnlySink:
    """An object whose only usable attribute is ``write(bytes-like)``."""

    def __init__(self):
        object.__setattr__(self, "chunks", [])

    def write(self, *args, **kwargs):
        if kwargs or len(args) != 1:
            raise StreamProtocolViolation(f"sink.write called with args={args!r} kwargs={kwargs!r}")
        data = args[0]
        if not isinstance(data, (bytes, bytearray, memoryview)):
            raise StreamProtocolViolation(f"sink.write({type(data).__name__}): not bytes-like")
        self.chunks.append(bytes(data))
        return len(data)

    def value(self) -> bytes:
        return b"".join(self.chunks)

    def __getattr__(self, name):
        raise StreamProtocolViolation(f"sink.{name} accessed")

    def __setattr__(self, name, value):
        raise StreamProtocolViolation(f"sink.{name} assigned")


class RecordingSink(WriteOnlySink):
    pass


class InjectedFault(Exception):
    pass


class FaultySink(WriteOnlySink):
    def __init__(self, k: int, exc: BaseException):
        super().__init__()
        object.__setattr__(self, "_k", k)
        object.__setattr__(self, "_exc", exc)
        object.__setattr__(self, "calls", 0)

    def write(self, *args, **kwargs):
        i = self.calls
        object.__setattr__(self, "calls", i + 1)
        if i == self._k:
            raise self._exc
        return super().write(*args, **kwargs)


class FaultySource(ReadOnlySource):
    def __init__(self, data: bytes, k: int, exc: BaseException):
        super().__init__(data)
        object.__setattr__(self, "_k", k)
        object.__setattr__(self, "_exc", exc)

    def read(self, *args, **kwargs):
        if len(self.sizes) == self._k:
            self.sizes.append(-1)
            raise self._exc
        return super().read(*args, **kwargs)


class FakeTransport(asyncio.Transport):
    def __init__(self):
        super().__init__()
        self.chunks = []
        self._closing = False

    def write(self, data):
        # what asyncio's own transports do (selector_events._SelectorSocketTransport.write, proactor, sslproto):
        if not isinstance(data, (bytes, bytearray, memoryview)):
            raise TypeError(f"data argument must be a bytes-like object, not {type(data).__name__!r}")
        self.chunks.append(bytes(data))

    def is_closing(self):
        return self._closing

    def close(self):
        self._closing = True

    def get_extra_info(self, name, default=None):
        return default

    def value(self) -> bytes:
        return b"".join(self.chunks)


class _Proto(asyncio.Protocol):
    async def _drain_helper(self):
        return None

    def _get_close_waiter(self, stream):
        raise RuntimeError("not used")


def make_stream_writer():
    """A real asyncio.StreamWriter over a recording transport (no running loop needed)."""
    loop = asyncio.new_event_loop()
    transport = FakeTransport()
    writer = asyncio.StreamWriter(transport, _Proto(), None, loop)
    return writer, transport, loop
