"""Running the project's code generator in a scratch tree, and dumping schema packages."""

from __future__ import annotations

import json
import os
import shutil
import subprocess
import sys
import tempfile
from pathlib import Path

from .engine import ROOT, HarnessError

REPO = Path(os.environ.get("KV_REPO", "/repo"))
PY = sys.executable

GEN_SNIPPET = r"""
import sys, os, io, contextlib
sys.argv = ["codegen", "error-codes.txt"]
import kio
assert os.path.realpath(kio.__file__).startswith(os.path.realpath(os.getcwd())), kio.__file__
from codegen import recreate_schema_path, generate_error_codes, generate_schema, generate_index
buf = io.StringIO()
with contextlib.redirect_stdout(buf):
    recreate_schema_path.main()
    generate_error_codes.main()
    generate_schema.main()
    if os.environ.get("KV_GEN_INDEX", "1") == "1":
        generate_index.main()
"""


def scratch_base() -> str:
    return os.environ.get("KV_SCRATCH", tempfile.gettempdir())


def make_scratch(defs_dir: Path | None, defs: dict[str, str] | None = None, error_codes: str | None = None) -> Path:
    """Copy the CURRENT generator and the non-generated part of kio into a fresh scratch tree."""
    scratch = Path(tempfile.mkdtemp(prefix="kv-gen-", dir=scratch_base()))
    shutil.copytree(REPO / "codegen", scratch / "codegen", ignore=shutil.ignore_patterns("__pycache__"))
    shutil.copytree(REPO / "src" / "kio", scratch / "src" / "kio",
                    ignore=lambda d, names: [n for n in names if n == "__pycache__" or (Path(d) == REPO / "src" / "kio" and n == "schema")])
    (scratch / "src" / "kio" / "schema").mkdir()
    (scratch / "src" / "kio" / "schema" / "__init__.py").touch()
    tag = _build_tag(scratch)
    target = scratch / "schema" / tag
    target.mkdir(parents=True)
    if defs_dir is not None:
        for p in sorted(defs_dir.glob("*.json")):
            shutil.copy(p, target / p.name)
        if error_codes is None and (defs_dir / "error-codes.txt").exists():
            error_codes = (defs_dir / "error-codes.txt").read_text()
    for name, text in (defs or {}).items():
        (target / name).write_text(text)
    (scratch / "error-codes.txt").write_text(error_codes or "0 NONE False NONE\n")
    return scratch


def _build_tag(scratch: Path) -> str:
    ns: dict = {}
    exec((scratch / "codegen" / "__init__.py").read_text(), ns)  # noqa: S102 - reads build_tag = "3.9.0"
    return ns["build_tag"]


def child_env(scratch: Path) -> dict:
    env = {k: v for k, v in os.environ.items() if k not in ("PYTHONPATH",)}
    env["PYTHONPATH"] = f"{scratch / 'src'}:{scratch}:{ROOT}"
    env["KV_REPO"] = str(scratch)
    env["PYTHONHASHSEED"] = "0"
    env["PYTHONDONTWRITEBYTECODE"] = "1"
    return env


def run_generator(scratch: Path, index: bool = True, timeout: int = 600) -> subprocess.CompletedProcess:
    env = child_env(scratch)
    env["KV_GEN_INDEX"] = "1" if index else "0"
    return subprocess.run([PY, "-c", GEN_SNIPPET], cwd=scratch, env=env, capture_output=True, text=True, timeout=timeout)


def dump_tree(tree_root: Path, timeout: int = 600) -> dict:
    """tree_root has src/kio/schema; returns the canonical dump."""
    env = {k: v for k, v in os.environ.items() if k != "PYTHONPATH"}
    env["PYTHONPATH"] = f"{tree_root / 'src'}:{ROOT}"
    env["KV_REPO"] = str(tree_root)
    env["PYTHONHASHSEED"] = "0"
    env["PYTHONDONTWRITEBYTECODE"] = "1"
    fd, out = tempfile.mkstemp(prefix="kv-dump-", suffix=".json", dir=scratch_base())
    os.close(fd)
    try:
        p = subprocess.run([PY, "-m", "kv.dumpschema", out], cwd=str(ROOT), env=env, capture_output=True, text=True, timeout=timeout)
        if p.returncode != 0:
            raise HarnessError(f"dump of {tree_root} failed:\n{p.stderr[-3000:]}")
        doc = json.load(open(out))
    finally:
        os.unlink(out)
    if not os.path.realpath(doc["kio_file"]).startswith(os.path.realpath(str(tree_root))):
        raise HarnessError(f"dump imported kio from {doc['kio_file']}, expected under {tree_root}")
    return doc
