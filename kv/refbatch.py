"""Independent implementation of the Kafka v2 (magic 2) record batch format.

Own varint/zig-zag (from kv.refcodec) and a table-driven pure-Python CRC-32C; nothing is
imported from kio or from the ``crc32c`` C package.
"""

from __future__ import annotations

from dataclasses import dataclass, field

from .refcodec import be, read_uvarint, unzigzag, uvarint, zigzag

# --------------------------------------------------------------------------- CRC-32C

_POLY = 0x82F63B78  # reflected Castagnoli polynomial 0x1EDC6F41


def _make_table() -> list[int]:
    table = []
    for n in range(256):
        c = n
        for _ in range(8):
            c = (c >> 1) ^ _POLY if c & 1 else c >> 1
        table.append(c)
    return table


_TABLE = _make_table()


def crc32c(data: bytes) -> int:
    crc = 0xFFFFFFFF
    for b in data:
        crc = _TABLE[(crc ^ b) & 0xFF] ^ (crc >> 8)
    return crc ^ 0xFFFFFFFF


assert crc32c(b"123456789") == 0xE3069283  # standard check value


# --------------------------------------------------------------------------- model


@dataclass(frozen=True)
class WireHeader:
    key: bytes | None
    value: bytes | None


@dataclass(frozen=True)
class WireRecord:
    attributes: int  # int8
    timestamp_delta: int  # varlong
    offset_delta: int  # varint
    key: bytes | None
    value: bytes | None
    headers: tuple[WireHeader, ...] = ()


@dataclass(frozen=True)
class WireBatch:
    base_offset: int
    partition_leader_epoch: int
    attributes: int
    last_offset_delta: int
    base_timestamp: int
    max_timestamp: int
    producer_id: int
    producer_epoch: int
    base_sequence: int
    records: tuple[WireRecord, ...]
    # filled by decode:
    batch_length: int | None = None
    crc: int | None = None
    magic: int = 2


class BatchFormatError(Exception):
    pass


def _svarint(v: int) -> bytes:
    return uvarint(zigzag(v, 32))


def _svarlong(v: int) -> bytes:
    return uvarint(zigzag(v, 64))


def _nullable_bytes(v: bytes | None) -> bytes:
    return _svarint(-1) if v is None else _svarint(len(v)) + v


def encode_record(r: WireRecord) -> bytes:
    body = bytearray()
    body += be(r.attributes, 1, True)
    body += _svarlong(r.timestamp_delta)
    body += _svarint(r.offset_delta)
    body += _nullable_bytes(r.key)
    body += _nullable_bytes(r.value)
    body += _svarint(len(r.headers))
    for h in r.headers:
        body += _nullable_bytes(h.key)
        body += _nullable_bytes(h.value)
    return _svarint(len(body)) + bytes(body)


def encode_batch(b: WireBatch, magic: int = 2) -> bytes:
    post = bytearray()
    post += be(b.attributes, 2, True)
    post += be(b.last_offset_delta, 4, True)
    post += be(b.base_timestamp, 8, True)
    post += be(b.max_timestamp, 8, True)
    post += be(b.producer_id, 8, True)
    post += be(b.producer_epoch, 2, True)
    post += be(b.base_sequence, 4, True)
    post += be(len(b.records), 4, True)
    for r in b.records:
        post += encode_record(r)
    crc = crc32c(bytes(post))
    out = bytearray()
    out += be(b.base_offset, 8, True)
    out += be(len(post) + 9, 4, True)  # partitionLeaderEpoch(4) + magic(1) + crc(4) + rest
    out += be(b.partition_leader_epoch, 4, True)
    out += be(magic, 1, True)
    out += be(crc, 4, False)
    out += post
    return bytes(out)


class _Cur:
    def __init__(self, data: bytes, pos: int = 0, end: int | None = None):
        self.d, self.p, self.e = data, pos, len(data) if end is None else end

    def take(self, n: int) -> bytes:
        if n < 0 or self.p + n > self.e:
            raise BatchFormatError(f"need {n} bytes at {self.p}, limit {self.e}")
        out = self.d[self.p : self.p + n]
        self.p += n
        return out

    def int(self, width: int, signed: bool = True) -> int:
        return int.from_bytes(self.take(width), "big", signed=signed)

    def svar(self, max_bytes: int) -> int:
        try:
            raw, pos = read_uvarint(self.d[: self.e], self.p, max_bytes)
        except (EOFError, ValueError) as e:
            raise BatchFormatError(f"bad varint at {self.p}: {e!r}") from None
        n = pos - self.p
        if uvarint(raw) != self.d[self.p : pos]:
            raise BatchFormatError(f"non-minimal varint at {self.p}")
        self.p = pos
        return unzigzag(raw)

    def nullable(self) -> bytes | None:
        n = self.svar(5)
        if n == -1:
            return None
        if n < 0:
            raise BatchFormatError(f"negative length {n}")
        return self.take(n)


def decode_batch(data: bytes) -> tuple[WireBatch, int]:
    """Strict decoder -> (batch, bytes consumed).  Raises BatchFormatError on any deviation."""
    c = _Cur(data)
    base_offset = c.int(8)
    batch_length = c.int(4)
    if batch_length < 49:
        raise BatchFormatError(f"batch_length {batch_length} < minimum 49")
    end = 12 + batch_length
    if end > len(data):
        raise BatchFormatError("batch_length exceeds data")
    c.e = end
    ple = c.int(4)
    magic = c.int(1)
    if magic != 2:
        raise BatchFormatError(f"magic {magic}")
    crc = c.int(4, signed=False)
    if c.p != 21:
        raise BatchFormatError("header layout")
    if crc32c(data[21:end]) != crc:
        raise BatchFormatError(f"crc {crc:#x} != crc32c(bytes[21:{end}]) {crc32c(data[21:end]):#x}")
    attributes = c.int(2)
    lod = c.int(4)
    base_ts = c.int(8)
    max_ts = c.int(8)
    pid = c.int(8)
    pepoch = c.int(2)
    bseq = c.int(4)
    count = c.int(4)
    if count < 0:
        raise BatchFormatError("negative record count")
    records = []
    for _ in range(count):
        length = c.svar(5)
        if length < 0:
            raise BatchFormatError("negative record length")
        rc = _Cur(data, c.p, c.p + length)
        if rc.e > end:
            raise BatchFormatError("record exceeds batch")
        r_attr = rc.int(1)
        ts_delta = rc.svar(10)
        off_delta = rc.svar(5)
        key = rc.nullable()
        value = rc.nullable()
        nh = rc.svar(5)
        if nh < 0:
            raise BatchFormatError("negative header count")
        headers = tuple(WireHeader(rc.nullable(), rc.nullable()) for _ in range(nh))
        if rc.p != rc.e:
            raise BatchFormatError(f"record length prefix {length} but record body used {rc.p - (rc.e - length)}")
        c.p = rc.e
        records.append(WireRecord(r_attr, ts_delta, off_delta, key, value, headers))
    if c.p != end:
        raise BatchFormatError(f"{end - c.p} trailing bytes inside the batch")
    return (
        WireBatch(base_offset, ple, attributes, lod, base_ts, max_ts, pid, pepoch, bseq, tuple(records),
                  batch_length=batch_length, crc=crc),
        end,
    )
