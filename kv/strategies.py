"""Hypothesis strategies for wire trees, built by construction from a ClassDesc."""

from __future__ import annotations

import dataclasses
import functools
from dataclasses import dataclass, field

from hypothesis import strategies as st

from .describe import INT_RANGES, ClassDesc, FieldDesc
from .refcodec import ABSENT, UNKNOWN, ZERO_UUID, Present, default_value, py_equal, _field_to_py

TS_MAX_MS = 253402300799999  # 9999-12-31T23:59:59.999Z
TD64_MIN_MS = -86399999913600000  # datetime.timedelta.min
TD64_MAX_MS = 86399999913599999  # timedelta.max - 1 day, floored to ms


@dataclass(frozen=True)
class Profile:
    name: str
    explicit_defaults: bool = False  # tagged Present(default) allowed
    unknown_tags: bool = False
    any_float_bits: bool = False  # NaN / inf / payloads
    long_strings: bool = True
    oversize_legacy: bool = False  # 32768-byte strings on legacy classes (must be rejected)
    max_array: int = 3
    # occasionally an array far beyond max_array: lengths around the chunk sizes and varint boundaries of the length prefix
    # (127 items = the last one-byte compact length, 16383 the last two-byte one); items cycle through 1-3 generated units
    long_arrays: bool = False
    huge_bytes: bool = False  # 1 in 8 long bytes/records values is about 1 MiB or 1.5 MiB
    long_array_lengths: tuple = (63, 64, 65, 96, 100, 126, 127, 128, 129, 192, 200, 255, 256, 257, 384, 500, 512, 768, 1000, 1024, 1152)
    long_scalar_array_lengths: tuple = (16382, 16383, 16384)
    long_lengths: tuple = (126, 127, 128, 129, 16383, 16384, 32766, 32767)
    # known-finding exclusions (each counted by the caller)
    whole_second_timestamps: bool = False
    small_durations: bool = False  # |ms| <= 2**53
    no_unknown_tags_reason: str = ""


PYTHON_CANONICAL = Profile("python_canonical", long_arrays=True, huge_bytes=True)
WIRE_CONFORMING = Profile("wire_conforming", explicit_defaults=True, unknown_tags=True, any_float_bits=True, long_arrays=True, huge_bytes=True)
WIRE_CANONICAL = Profile("wire_canonical", any_float_bits=True)
SMALL = Profile("small", long_strings=False, max_array=2)
MEDIUM = Profile("medium", long_lengths=(126, 127, 128, 129, 200))


def _pow2_neighbours(lo: int, hi: int) -> list[int]:
    out = {lo, lo + 1, hi - 1, hi, 0, 1, -1}
    k = 1
    while 2**k <= max(abs(lo), abs(hi)) + 1:
        for base in (2**k, -(2**k)):
            for d in (-1, 0, 1):
                out.add(base + d)
        k += 1
    return sorted(v for v in out if lo <= v <= hi)


@functools.lru_cache(maxsize=None)
def int_strategy(lo: int, hi: int) -> st.SearchStrategy[int]:
    return st.one_of(st.sampled_from(_pow2_neighbours(lo, hi)), st.integers(lo, hi))


_ALPHABETS = [
    "abcXYZ019-_.",
    "a%s{0}%(x)d\\n$",  # characters that formatting / templating code treats specially
    "åäößΩ",  # 2-byte
    "€中文�",  # 3-byte
    "\U0001f600\U00010348",  # 4-byte
    # code points that decoders/normalisers like to treat specially: BOM / zero-width no-break space, NUL, a combining
    # mark after a base letter, Angstrom sign vs A-ring (NFC/NFKC), line separator, no-break space, a noncharacter
    "\ufeff\x00e\u0301\u212b\u00c5\u2028\u00a0\ufffe",
]
_LONG_LENGTHS = [126, 127, 128, 129, 16383, 16384, 32766, 32767]


@st.composite
def utf8_bytes(draw, profile: Profile, legacy: bool) -> bytes:
    mode = draw(st.integers(0, 19))
    if mode <= 1:
        return b""
    if mode == 2 and profile.long_strings:
        lengths = list(profile.long_lengths)
        if profile.oversize_legacy and legacy:
            lengths.append(32768)
        n = draw(st.sampled_from(lengths))
        unit = draw(st.text(alphabet="".join(_ALPHABETS), min_size=1, max_size=3)).encode()
        reps = n // len(unit)
        body = unit * reps
        return body + b"a" * (n - len(body))
    alpha = draw(st.sampled_from(_ALPHABETS + ["".join(_ALPHABETS)]))
    text = draw(st.text(alphabet=alpha, min_size=1, max_size=12))
    if mode == 3:  # a special code point in first (or last) position
        special = draw(st.sampled_from(["\ufeff", "\x00", "\u0301", "\u2028", " ", "\ufffe"]))
        text = special + text if draw(st.booleans()) else text + special
    return text.encode("utf-8")


@st.composite
def raw_bytes(draw, profile: Profile) -> bytes:
    mode = draw(st.integers(0, 19))
    if mode <= 1:
        return b""
    if mode == 2 and profile.long_strings:
        sizes = list(profile.long_lengths) + [max(profile.long_lengths) * 2]
        if profile.huge_bytes and draw(st.integers(0, 7)) == 0:
            sizes = [(1 << 20) - 1, (1 << 20) + 4096, 3 << 19]  # around and above 1 MiB (chunked I/O paths)
        n = draw(st.sampled_from(sizes))
        unit = draw(st.binary(min_size=1, max_size=4))
        return (unit * (n // len(unit) + 1))[:n]
    return draw(st.binary(min_size=1, max_size=24))


# instants around the end (and start) of daylight saving time in three zones: T -/+ half the shift are the two "fold twins"
# of one wall-clock time, T -/+ 3 h lie on the same local calendar day with different UTC offsets
DST_INSTANTS = [1635642000000 - 1800000, 1635642000000 + 1800000, 1635642000000 - 10800000, 1635642000000 + 10800000,   # Europe/Paris, Berlin 2021-10-31
                1636264800000 - 1800000, 1636264800000 + 1800000,                                                      # America/New_York 2021-11-07
                1617462000000 - 900000, 1617462000000 + 900000,                                                        # Australia/Lord_Howe 2021-04-03
                1616893200000 - 7200000, 1616893200000 + 7200000]                                                      # Europe/Paris spring forward 2021-03-28
_TS_BOUNDS = [0, 1, 999, 1000, 1001, 1500, 86399999, 1700000000123, 2**41, 2**41 + 7,
              TS_MAX_MS - 1, TS_MAX_MS, TS_MAX_MS - 999] + DST_INSTANTS
_TD64_BOUNDS = [0, 1, -1, 2**31, -(2**31) - 1, 2**53 - 1, 2**53, 2**53 + 1, -(2**53) - 1,
                2**56 + 3, TD64_MAX_MS, TD64_MAX_MS - 1, TD64_MIN_MS, TD64_MIN_MS + 1,
                9007199254740993 * 3]
_FLOAT_BITS = [
    bytes(8), bytes([0x80]) + bytes(7),  # 0.0, -0.0
    bytes.fromhex("3ff0000000000000"), bytes.fromhex("bff0000000000000"),
    bytes.fromhex("0000000000000001"), bytes.fromhex("000fffffffffffff"),  # subnormals
    bytes.fromhex("7fefffffffffffff"), bytes.fromhex("ffefffffffffffff"),  # +-max
    bytes.fromhex("0010000000000000"), bytes.fromhex("3fb999999999999a"),
]
_FLOAT_SPECIAL = [
    bytes.fromhex("7ff0000000000000"), bytes.fromhex("fff0000000000000"),  # +-inf
    bytes.fromhex("7ff8000000000000"), bytes.fromhex("7ff8000000000001"),  # qNaN, payload
    bytes.fromhex("fff8000000000abc"), bytes.fromhex("7ffc00000000dead"),
]


def _is_finite_bits(b: bytes) -> bool:
    return (int.from_bytes(b, "big") >> 52) & 0x7FF != 0x7FF


@functools.lru_cache(maxsize=None)
def error_codes() -> tuple[int, ...]:
    from kio.schema.errors import ErrorCode

    return tuple(sorted(int(e) for e in ErrorCode))


@functools.lru_cache(maxsize=None)
def api_keys() -> tuple[int, ...]:
    from kio.schema.index import api_key_map

    return tuple(sorted(int(k) for k in api_key_map))


def scalar_strategy(kind: str, profile: Profile, flexible: bool, legacy_string: bool):
    if kind in INT_RANGES:
        return int_strategy(*INT_RANGES[kind])
    if kind == "float64":
        finite = st.one_of(
            st.sampled_from(_FLOAT_BITS),
            st.binary(min_size=8, max_size=8).filter(_is_finite_bits),
        )
        if profile.any_float_bits:
            return st.one_of(finite, st.sampled_from(_FLOAT_SPECIAL))
        return finite
    if kind == "bool":
        return st.integers(0, 1)
    if kind == "string":
        return utf8_bytes(profile, legacy=legacy_string or not flexible)
    if kind in ("bytes", "records"):
        return raw_bytes(profile)
    if kind == "uuid":
        return st.one_of(
            st.just(ZERO_UUID),
            st.binary(min_size=16, max_size=16),
            st.sampled_from([bytes(15) + b"\x01", b"\xff" * 16, b"\x01" + bytes(15)]),
        )
    if kind == "error_code":
        return st.sampled_from(error_codes())
    if kind == "timedelta_i32":
        return int_strategy(-(2**31), 2**31 - 1)
    if kind == "timedelta_i64":
        if profile.small_durations:
            return st.one_of(
                st.sampled_from([0, 1, -1, 2**31, 2**53, -(2**53)]), st.integers(-(2**53), 2**53)
            )
        return st.one_of(st.sampled_from(_TD64_BOUNDS), st.integers(TD64_MIN_MS, TD64_MAX_MS))
    if kind == "datetime_i64":
        if profile.whole_second_timestamps:
            return st.integers(0, TS_MAX_MS // 1000).map(lambda s: s * 1000)
        return st.one_of(st.sampled_from(_TS_BOUNDS), st.integers(0, TS_MAX_MS))
    raise ValueError(kind)


_UNKNOWN_TAGS = [127, 128, 2**14, 2**14 - 1, 2**31 - 1, 300, 1000]


@st.composite
def field_value(draw, cd: ClassDesc, f: FieldDesc, profile: Profile, depth: int):
    legacy_string = cd.is_request_header and f.name == "client_id"
    if f.array:
        if f.nullable and draw(st.integers(0, 3)) == 0:
            return None
        if profile.long_arrays and draw(st.integers(0, 24)) == 0:
            inner = dataclasses.replace(profile, long_arrays=False, long_strings=False)
            lengths = profile.long_array_lengths + (profile.long_scalar_array_lengths if f.kind != "struct" else ())
            # block sizes of bulk paths are arbitrary: besides the usual suspects, any length up to 1200 may be drawn
            n = draw(st.one_of(st.sampled_from(lengths), st.sampled_from(lengths), st.integers(60, 1200)))
            if f.kind == "struct":
                unit_st = tree_strategy(f.struct, inner, depth + 1)
            else:
                unit_st = scalar_strategy(f.kind, inner, cd.flexible, False)
            units = [draw(unit_st) for _ in range(draw(st.integers(1, 3)))]
            return [units[i % len(units)] for i in range(n)]
        max_n = max(1, profile.max_array - depth)
        n = draw(st.sampled_from([0, 1, 1, 2, max_n]))
        if f.kind == "struct":
            return [draw(tree_strategy(f.struct, profile, depth + 1)) for _ in range(n)]
        item = scalar_strategy(f.kind, profile, cd.flexible, False)
        return [draw(item) for _ in range(n)]
    if f.kind == "struct":
        if f.nullable and draw(st.integers(0, 2)) == 0:
            return None
        pick = draw(st.integers(0, 7))
        if pick == 0:
            return defaults_tree(f.struct)  # a present struct whose every field has its default / zero value
        if pick == 1:
            from .refcodec import zero_tree

            return zero_tree(f.struct)  # all zeros / empty - NOT the default when the struct declares defaults such as -1
        return draw(tree_strategy(f.struct, profile, depth + 1))
    if cd.is_request_header and f.name == "request_api_key" and f.kind == "int16" and draw(st.integers(0, 2)) != 0:
        # headers as real clients send them: a drawn int16 names a real API about once in 700 draws (seed C06-n keyed on 7)
        return draw(st.sampled_from(api_keys()))
    nullable = f.nullable or legacy_string
    if nullable and f.kind != "uuid" and draw(st.integers(0, 2)) == 0:
        return None
    return draw(scalar_strategy(f.kind, profile, cd.flexible, legacy_string))


@st.composite
def tree_strategy(draw, cd: ClassDesc, profile: Profile, depth: int = 0) -> dict:
    tree: dict = {}
    for f in cd.fields:
        if f.tag is None:
            tree[f.name] = draw(field_value(cd, f, profile, depth))
            continue
        mode = draw(st.integers(0, 3 if profile.explicit_defaults else 2))
        if mode == 0:
            tree[f.name] = ABSENT
        elif mode == 3:
            tree[f.name] = Present(default_wire(cd, f))
        else:
            tree[f.name] = Present(draw(field_value(cd, f, profile, depth)))
    if cd.flexible and profile.unknown_tags and draw(st.integers(0, 3)) == 0:
        known = {f.tag for f in cd.fields if f.tag is not None}
        top = max(known, default=-1)
        candidates = [t for t in [top + 1, top + 2] + _UNKNOWN_TAGS if t not in known]
        if draw(st.integers(0, 11)) == 0:
            # MANY unknown tagged fields: the count itself then needs a 2-byte varint (KIP-482 sets no limit)
            n_many = draw(st.sampled_from([126, 127, 128, 129, 255, 256, 257, 300, 383, 384, 512, 600, 1000]))
            start = max([top + 1] + [0])
            free = [t for t in range(start, start + n_many + len(known) + 1) if t not in known][:n_many]
            small = draw(st.binary(max_size=2))
            tree[UNKNOWN] = [(t, small if i % 3 else b"") for i, t in enumerate(free)]
            return tree
        n = draw(st.integers(1, 3))
        tags = draw(
            st.lists(
                st.one_of(st.sampled_from(candidates), st.integers(0, 2**31 - 1).filter(lambda t: t not in known)),
                min_size=n, max_size=n, unique=True,
            )
        )
        def payload():
            if draw(st.integers(0, 7)) == 0:  # an unknown field whose size needs a 2- or 3-byte varint / exceeds common buffer sizes
                size = draw(st.sampled_from([127, 128, 4096, 8191, 8192, 8193, 16384, 70000]))
                unit = draw(st.binary(min_size=1, max_size=3))
                return (unit * (size // len(unit) + 1))[:size]
            return draw(st.binary(max_size=40))

        tree[UNKNOWN] = [(t, payload()) for t in sorted(tags)]
    return tree


def defaults_tree(cd: ClassDesc) -> dict:
    """Tree in which every field carries its explicit default (or the zero value), tagged fields absent."""
    from .refcodec import _field_from_py, zero_tree

    tree = zero_tree(cd)
    for f in cd.fields:
        if f.tag is None and f.has_default:
            try:
                tree[f.name] = _field_from_py(f, f.default)
            except Exception:
                pass
    return tree


def default_wire(cd: ClassDesc, f: FieldDesc) -> object:
    from .refcodec import _field_from_py

    return _field_from_py(f, default_value(f))


# --------------------------------------------------------------------------- labels


def tree_labels(cd: ClassDesc, tree: dict, depth: int = 0, out: set | None = None) -> set[str]:
    out = set() if out is None else out
    if tree.get(UNKNOWN):
        out.add("unknown_tag")
        if len(tree[UNKNOWN]) >= 126:
            out.add("unknown_tags_ge126")
        if depth >= 1:
            out.add("unknown_tag_nested")
    n_tag_entries = len(tree.get(UNKNOWN, ()))
    for f in cd.fields:
        v = tree.get(f.name, ABSENT) if f.tag is not None else tree[f.name]
        if f.tag is not None:
            if v is ABSENT:
                out.add("tagged_absent")
                continue
            v = v.value
            n_tag_entries += 1
            if py_equal(_field_to_py(f, v), default_value(f)):
                out.add("tagged_explicit_default")
                if v is None:
                    out.add("tagged_explicit_null")
            else:
                out.add("tagged_nondefault")
                if depth >= 1:
                    out.add("tagged_nondefault_nested")
        if f.array:
            if v is None:
                out.add("array_null")
            elif len(v) == 0:
                out.add("array_empty")
            elif len(v) == 1:
                out.add("array_one")
            else:
                out.add("array_many")
                if len(v) >= 127:
                    out.add("array_ge127")
            items = v or []
        else:
            items = [v]
            if f.nullable and f.kind != "uuid":
                out.add("nullable_null" if v is None else "nullable_nonnull")
        if f.kind == "struct":
            if not f.array and f.nullable:
                out.add("struct_null" if v is None else "struct_present")
            for item in items:
                if item is not None:
                    tree_labels(f.struct, item, depth + 1, out)
            continue
        for item in items:
            if item is None:
                continue
            if f.kind == "string":
                n = len(item)
                if n >= 126:
                    out.add("string_ge126")
                if n >= 16383:
                    out.add("string_ge16383")
                if any(b >= 0x80 for b in item[:64]):
                    out.add("multibyte_text")
            elif f.kind in ("bytes", "records"):
                if len(item) >= 126:
                    out.add("bytes_ge126")
            elif f.kind in INT_RANGES:
                lo, hi = INT_RANGES[f.kind]
                if item in (lo, hi):
                    out.add("int_limit")
            elif f.kind == "datetime_i64":
                if item % 1000:
                    out.add("subsecond_timestamp")
            elif f.kind == "timedelta_i64":
                if abs(item) > 2**53:
                    out.add("duration_gt_2p53")
            elif f.kind == "uuid":
                out.add("uuid_zero" if item == ZERO_UUID else "uuid_nonzero")
            elif f.kind == "float64":
                if not _is_finite_bits(item):
                    out.add("float_nonfinite")
                elif item == bytes([0x80]) + bytes(7):
                    out.add("float_negzero")
    if n_tag_entries >= 2:
        out.add("tag_section_ge2")
    return out


def possible_labels(cd: ClassDesc, profile: Profile, _seen=None) -> set[str]:
    """Labels this class can express at all (for generator-health floors)."""
    out = set()
    _seen = set() if _seen is None else _seen
    if cd in _seen:
        return out
    _seen.add(cd)
    if cd.flexible and profile.unknown_tags:
        out.add("unknown_tag")
    for f in cd.fields:
        if f.tag is not None:
            out.add("tagged_nondefault")
        if f.array:
            out |= {"array_empty", "array_many"}
            if f.nullable:
                out.add("array_null")
        if f.kind == "string":
            out.add("multibyte_text")
        if f.kind == "datetime_i64":
            out.add("subsecond_timestamp")
        if f.kind == "struct":
            out |= possible_labels(f.struct, profile, _seen)
    return out
