"""Hand-computed Kafka byte vectors that pin the reference codec (kv.refcodec) independently of kio.serial.

Each vector was written out by hand from the protocol guide / KIP-482 / KIP-893 (not produced by any code) and is
checked against ref_encode at the start of C02 and C03; a mismatch is a harness error (exit 2), never a VIOLATION.
"""

from __future__ import annotations

from . import describe as D
from .engine import HarnessError
from .refcodec import ABSENT, Present, ref_encode

U1 = bytes(range(1, 17))

VECTORS = [
    # RequestHeader v2 (flexible): int16 key, int16 version, int32 correlation, client_id as LEGACY nullable string, tags
    ("kio.schema.request_header.v2.header:RequestHeader",
     {"request_api_key": 18, "request_api_version": 3, "correlation_id": 1, "client_id": b"adminclient-1"},
     "0012" "0003" "00000001" "000d" + b"adminclient-1".hex() + "00"),
    ("kio.schema.request_header.v2.header:RequestHeader",
     {"request_api_key": 3, "request_api_version": 12, "correlation_id": -2, "client_id": None},
     "0003" "000c" "fffffffe" "ffff" "00"),
    # RequestHeader v1 (not flexible): no tagged section
    ("kio.schema.request_header.v1.header:RequestHeader",
     {"request_api_key": 0, "request_api_version": 7, "correlation_id": 258, "client_id": b""},
     "0000" "0007" "00000102" "0000"),
    # ResponseHeader v1: correlation id + empty tagged section
    ("kio.schema.response_header.v1.header:ResponseHeader", {"correlation_id": 7}, "00000007" "00"),
    # ApiVersionsRequest v3: two compact strings (len+1) + empty tagged section
    ("kio.schema.api_versions.v3.request:ApiVersionsRequest",
     {"client_software_name": b"apache-kafka-java", "client_software_version": b"3.9.0"},
     "12" + b"apache-kafka-java".hex() + "06" + b"3.9.0".hex() + "00"),
    # MetadataRequest v4 (legacy): int32 array length, int16 string lengths, bool
    ("kio.schema.metadata.v4.request:MetadataRequest",
     {"topics": [{"name": b"a"}, {"name": "å".encode()}], "allow_auto_topic_creation": 1},
     "00000002" "0001" "61" "0002" "c3a5" "01"),
    ("kio.schema.metadata.v4.request:MetadataRequest", {"topics": None, "allow_auto_topic_creation": 0}, "ffffffff" "00"),
    # FetchRequest v15 (flexible): tagged section with cluster_id (tag 0, compact string) and replica_state (tag 1, struct)
    ("kio.schema.fetch.v15.request:FetchRequest",
     {"cluster_id": Present(b"c"), "replica_state": Present({"replica_id": 5, "replica_epoch": 9}),
      "max_wait": 500, "min_bytes": 1, "max_bytes": 0x7FFFFFFF, "isolation_level": 0, "session_id": 0, "session_epoch": -1,
      "topics": [], "forgotten_topics_data": [], "rack_id": b""},
     "000001f4" "00000001" "7fffffff" "00" "00000000" "ffffffff" "01" "01" "01"
     "02" "00" "02" "0263" "01" "0d" "00000005" "0000000000000009" "00"),
    ("kio.schema.fetch.v15.request:FetchRequest",
     {"cluster_id": ABSENT, "replica_state": ABSENT, "max_wait": 0, "min_bytes": 0, "max_bytes": 0, "isolation_level": 1,
      "session_id": 0, "session_epoch": 0,
      "topics": [{"topic_id": U1, "partitions": [{"partition": 0, "current_leader_epoch": -1, "fetch_offset": 2**40,
                                                  "last_fetched_epoch": -1, "log_start_offset": -1, "partition_max_bytes": 1048576}]}],
      "forgotten_topics_data": [], "rack_id": b"r1", "__unknown__": [(200, b"\xaa\xbb")]},
     "00000000" "00000000" "00000000" "01" "00000000" "00000000"
     "02" + U1.hex() + "02" "00000000" "ffffffff" "0000010000000000" "ffffffff" "ffffffffffffffff" "00100000" "00" "00"
     "01" "03" "7231" "01" "c801" "02" "aabb"),
    # KIP-893 nullable struct marker: ConsumerGroupHeartbeatResponse v0 assignment null / present
    ("kio.schema.consumer_group_heartbeat.v0.response:ConsumerGroupHeartbeatResponse",
     {"throttle_time": 0, "error_code": 0, "error_message": None, "member_id": None, "member_epoch": 3,
      "heartbeat_interval": 5000, "assignment": None},
     "00000000" "0000" "00" "00" "00000003" "00001388" "ff" "00"),
    ("kio.schema.consumer_group_heartbeat.v0.response:ConsumerGroupHeartbeatResponse",
     {"throttle_time": 0, "error_code": 0, "error_message": None, "member_id": b"m", "member_epoch": 3,
      "heartbeat_interval": 5000, "assignment": {"topic_partitions": []}},
     "00000000" "0000" "00" "026d" "00000003" "00001388" "01" "01" "00" "00"),
]


def run_selftest() -> int:
    for path, tree, want_hex in VECTORS:
        cd = D.describe(D.resolve(path))
        got = ref_encode(cd, tree)
        if got.hex() != want_hex:
            raise HarnessError(f"reference codec self-test failed for {path}:\n got  {got.hex()}\n want {want_hex}")
    return len(VECTORS)
