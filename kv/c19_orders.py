"""C19 stage 4, child side: outcomes of a fixed set of encode/decode calls per entity class, with the readers and
writers of the classes created and used in a given ORDER inside one fresh process.

usage: python -m kv.c19_orders <out.json> forward|reverse|nested-first|top-first|shuffle:<seed>|list:<path,path,...> [only=<path,path>]

The parent (kv.props.c19) starts several of these with different orders and compares the outcomes: the result of a
call may depend only on the value / input bytes and the class, so every (class, call) must have the same outcome in
every order.  Inputs per class (all deterministic functions of the class description):
  dec:populated   reference encoding of a tree with 2-item arrays and every tagged field present
  dec:zero        reference encoding of the zero tree (tagged fields absent)
  dec:explicit    conforming non-canonical encoding: nullable fields null, every tagged field sent with its default
  dec:hostile<k>  NOT conforming: the k-th non-nullable string/bytes/array field (top level, then nested) sent as null
  enc:*           the writer applied to the corresponding instances (hostile: None in a non-nullable field)
Outcomes are "ok:<repr or hex>" or "exc:<exception type>" (messages are not compared).
"""

from __future__ import annotations

import dataclasses
import io
import json
import random
import sys

from . import describe as D
from . import kioapi as K
from .refcodec import ABSENT, Present, RefEncodeError, default_value, ref_encode, to_entity, zero_tree, _field_from_py

HOSTILE_KINDS = ("string", "bytes", "records")


def populated_tree(cd: D.ClassDesc, n: int, variant: int) -> dict:
    t = {}
    for f in cd.fields:
        if f.kind == "struct":
            make = lambda f=f: populated_tree(f.struct, n, variant)  # noqa: E731
        elif f.kind == "float64":
            make = lambda: bytes.fromhex("3ff8000000000000")  # noqa: E731
        elif f.kind == "uuid":
            make = lambda: bytes([variant + 1]) * 16  # noqa: E731
        elif f.kind in ("string", "bytes", "records"):
            make = lambda: b"v%d" % variant  # noqa: E731
        elif f.kind == "bool":
            make = lambda: 1  # noqa: E731
        elif f.kind == "error_code":
            make = lambda: 3  # noqa: E731
        else:
            make = lambda: 5 + variant  # noqa: E731
        v = [make() for _ in range(n)] if f.array else make()
        t[f.name] = Present(v) if f.tag is not None else v
    return t


def explicit_tree(cd: D.ClassDesc) -> dict:
    """Nullable fields null, tagged fields present with their default value, everything else zero."""
    t = {}
    for f in cd.fields:
        if f.tag is not None:
            t[f.name] = Present(_field_from_py(f, default_value(f)))
        elif f.nullable and f.kind != "uuid":
            t[f.name] = None
        elif f.array:
            t[f.name] = [explicit_tree(f.struct)] if f.kind == "struct" else []
        elif f.kind == "struct":
            t[f.name] = explicit_tree(f.struct)
        else:
            t[f.name] = zero_tree(dataclasses.replace(cd, fields=(f,)), absent_tags=False)[f.name]
    return t


def relaxed(cd: D.ClassDesc) -> D.ClassDesc:
    """The same description with every string/bytes/records/array field declared nullable (to BUILD hostile input)."""
    fs = []
    for f in cd.fields:
        g = f
        if f.kind == "struct":
            g = dataclasses.replace(g, struct=relaxed(f.struct))
        if f.array or f.kind in HOSTILE_KINDS:
            g = dataclasses.replace(g, nullable=True)
        fs.append(g)
    return dataclasses.replace(cd, fields=tuple(fs))


def hostile_trees(cd: D.ClassDesc, limit: int = 3) -> list[dict]:
    """populated(1) trees in which the k-th non-nullable string/bytes/array field (pre-order) is null."""
    out = []

    def candidates(c: D.ClassDesc, prefix: tuple, depth: int):
        for f in c.fields:
            if (f.array or f.kind in HOSTILE_KINDS) and not f.nullable:
                yield prefix + (f.name,)
            if f.kind == "struct" and depth < 2:
                yield from candidates(f.struct, prefix + (f.name,), depth + 1)

    for path in list(candidates(cd, (), 0))[:limit]:
        tree = populated_tree(cd, 1, 0)
        node, c = tree, cd
        ok = True
        for i, name in enumerate(path):
            f = next(x for x in c.fields if x.name == name)
            last = i == len(path) - 1
            cur = node[name]
            inner = cur.value if isinstance(cur, Present) else cur
            if last:
                node[name] = Present(None) if isinstance(cur, Present) else None
            else:
                if f.array:
                    if not inner:
                        ok = False
                        break
                    inner = inner[0]
                node, c = inner, f.struct
        if ok:
            out.append(tree)
    return out


def outcome(fn) -> str:
    try:
        return "ok:" + fn()
    except RecursionError:
        raise
    except BaseException as e:  # noqa: BLE001 - the exception type IS the outcome
        return "exc:" + type(e).__name__


def calls_for(cls: type) -> list[tuple[str, object]]:
    cd = D.describe(cls)
    rel = relaxed(cd)
    out: list[tuple[str, object]] = []
    named = [("populated", cd, populated_tree(cd, 2, 0)), ("zero", cd, zero_tree(cd)), ("explicit", cd, explicit_tree(cd))]
    named += [(f"hostile{k}", rel, t) for k, t in enumerate(hostile_trees(cd))]
    for label, desc, tree in named:
        try:
            data = ref_encode(desc, tree)
        except RefEncodeError:
            data = None
        if data is not None:
            out.append((f"dec:{label}", data))
        try:
            value = to_entity(desc, tree)
        except Exception:  # noqa: BLE001 - not every tree has an instance (e.g. out-of-range for the phantom types)
            continue
        out.append((f"enc:{label}", value))
    return out


def run_class(cls: type, flip: int = 0) -> dict[str, str]:
    import zlib

    res = {}
    # which of the two closures of a class is built first also varies with the order (a reader must not depend on whether
    # its own class's writer exists already, and vice versa)
    if (zlib.crc32(f"{cls.__module__}:{cls.__qualname__}".encode()) + flip) % 2:
        writer = K.entity_writer(cls)
        reader = K.entity_reader(cls)
    else:
        reader = K.entity_reader(cls)
        writer = K.entity_writer(cls)
    for label, arg in calls_for(cls):
        if label.startswith("dec:"):
            def dec(arg=arg):
                buf = io.BytesIO(arg)
                v = reader(buf)
                return f"{buf.tell()}:{v!r}"[:400]
            res[label] = outcome(dec)
        else:
            def enc(arg=arg):
                buf = io.BytesIO()
                writer(buf, arg)
                return buf.getvalue().hex()[:400]
            res[label] = outcome(enc)
    return res


def order_of(spec: str) -> list[str]:
    paths = [f"{c.__module__}:{c.__qualname__}" for c in D.all_classes()]
    if spec == "forward":
        return paths
    if spec == "reverse":
        return paths[::-1]
    if spec in ("nested-first", "top-first"):
        # all nested structs before all top-level classes (what a client that pre-builds codecs for the small structs does),
        # or the other way round; each group in path order
        nested = {f"{c.__module__}:{c.__qualname__}" for c in D.all_classes() if getattr(getattr(c, "__type__", None), "name", "") == "nested"}
        a = [p for p in paths if p in nested]
        b = [p for p in paths if p not in nested]
        return a + b if spec == "nested-first" else b + a
    if spec.startswith("shuffle:"):
        rng = random.Random(int(spec.split(":", 1)[1]))  # harness-level ordering, a pure function of the seed
        rng.shuffle(paths)
        return paths
    if spec.startswith("list:"):
        return [p for p in spec[5:].split(",") if p]
    raise SystemExit(f"bad order spec {spec!r}")


def main(argv: list[str]) -> int:
    out_path, spec = argv[0], argv[1]
    only = None
    for a in argv[2:]:
        if a.startswith("only="):
            only = set(a[5:].split(","))
    results = {}
    import zlib

    flip = 0 if spec.startswith("list:") else zlib.crc32(spec.encode()) % 2
    for arg in argv[2:]:
        if arg.startswith("flip="):
            flip = int(arg[5:])
    for path in order_of(spec):
        cls = D.resolve(path)
        r = run_class(cls, flip)
        if only is None or path in only:
            results[path] = r
    with open(out_path, "w") as fh:
        json.dump(results, fh)
    return 0


if __name__ == "__main__":
    sys.exit(main(sys.argv[1:]))
