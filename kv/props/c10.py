"""C10 -- malformed input fails fast with a decode error, never an internal error or hang."""

from __future__ import annotations

import io
import sys

from hypothesis import strategies as st

from .. import kioapi as K
from ..engine import Ctx, Report
from ..refcodec import OffsetMap, RefEncodeError, be, ref_encode, uvarint
from ..streams import ReadOnlySource
from ..strategies import Profile
from ..treeprop import TreeSpec, note, run_tree_property

ID = "C10"
PROFILE = Profile("wire_small", explicit_defaults=True, unknown_tags=True, any_float_bits=True,
                  long_lengths=(126, 127, 128, 129), max_array=3)

# Cost bounds (counted, never timed).  Constants fixed from the unchanged tree: over ~80k generated inputs on a
# third of all classes the worst observed ratios were calls ~ 40 + 3.1*(len+1) and reads ~ 1.7*(len+1); the
# structural worst case (arrays of empty compact strings: 1 byte, 2 reads, ~6-8 calls per item) is 2 reads and
# ~8 calls per byte.  The bounds below carry 4x headroom over that worst case.
CALLS_A, CALLS_B = 400, 32
READS_A, READS_B = 16, 8
BYTES_A, BYTES_B = 64, 4  # bytes a BytesIO source may hand out in total: 64 + 4 per input byte
MEM_A, MEM_B = 1 << 20, 1024  # bytes of peak traced allocation allowed: 1 MiB + 1 KiB per input byte

ALLOWED = (K.SerialError, ValueError, OverflowError)


class CostBoundExceeded(BaseException):
    pass


class _Profiler:
    def __init__(self, limit: int):
        self.calls = 0
        self.limit = limit

    def __call__(self, frame, event, arg):
        if event == "call":
            self.calls += 1
            if self.calls > self.limit:
                sys.setprofile(None)
                raise CostBoundExceeded(f"more than {self.limit} Python calls")


_limited = False


def _limit_memory() -> None:
    """Address-space cap so that an allocation driven by a hostile length raises MemoryError (a violation)
    instead of thrashing: the decoder legitimately needs memory proportional to the input only."""
    global _limited
    if not _limited:
        import resource

        cap = 3 * 1024**3
        soft, hard = resource.getrlimit(resource.RLIMIT_AS)
        resource.setrlimit(resource.RLIMIT_AS, (cap, hard))
        _limited = True


class MemoryBoundExceeded(Exception):
    pass


class CountingBytesIO(io.BytesIO):
    """A real io.BytesIO (isinstance checks and fast paths see one) that counts calls and the bytes it hands out through
    any of its data-returning methods; the totals are bounded like the read calls of the read-only source."""

    def __init__(self, data: bytes, max_calls: int):
        super().__init__(data)
        self.calls = 0
        self.handed_out = 0
        self.max_calls = max_calls
        self.total = len(data)

    def _count(self, out):
        from ..streams import ReadBudgetExceeded

        self.calls += 1
        self.handed_out += len(out)
        if self.calls > self.max_calls:
            raise ReadBudgetExceeded(f"more than {self.max_calls} data calls on the BytesIO source")
        if self.handed_out > BYTES_A + BYTES_B * self.total:
            raise ReadBudgetExceeded(f"the BytesIO source handed out {self.handed_out} bytes for a {self.total}-byte input")
        return out

    def read(self, *a):
        return self._count(super().read(*a))

    def read1(self, *a):
        return self._count(super().read1(*a))

    def readline(self, *a):
        return self._count(super().readline(*a))

    def getvalue(self):
        return self._count(super().getvalue())

    def getbuffer(self):
        return self._count(super().getbuffer())

    def readinto(self, b):
        n = super().readinto(b)
        self._count(b"x" * (n or 0))
        return n


def decode_guarded(cls, data: bytes, measure_mem: bool = False):
    """-> (outcome, value_or_exc, calls, reads, consumed)"""
    _limit_memory()
    if measure_mem:
        import tracemalloc

        tracemalloc.start()
        try:
            tracemalloc.reset_peak()
            base = tracemalloc.get_traced_memory()[0]
            res = decode_guarded(cls, data)
            peak = tracemalloc.get_traced_memory()[1] - base
        finally:
            tracemalloc.stop()
        if peak > MEM_A + MEM_B * len(data) and res[0] != "cost":
            return ("mem", MemoryBoundExceeded(f"peak allocation {peak} bytes"),) + res[2:]
        return res
    # half of the inputs (chosen by content, so replay is stable) come from a real, counting io.BytesIO
    use_bytesio = (sum(data) + len(data)) % 2 == 1
    if use_bytesio:
        src = CountingBytesIO(data, READS_A + READS_B * len(data))
    else:
        src = ReadOnlySource(data, max_reads=READS_A + READS_B * len(data), strict_sizes=False)
    reader = K.entity_reader(cls)
    prof = _Profiler(CALLS_A + CALLS_B * len(data))
    outcome, val = "returned", None
    sys.setprofile(prof)
    try:
        val = reader(src)
    except CostBoundExceeded as e:
        outcome, val = "cost", e
    except BaseException as e:  # classify below
        outcome, val = "raised", e
    finally:
        sys.setprofile(None)
    if use_bytesio:
        return outcome, val, prof.calls, src.calls, src.tell()
    return outcome, val, prof.calls, len(src.sizes), src.consumed


# --------------------------------------------------------------------------- input construction

_HOSTILE_VARINTS = [b"\x00", b"\x01", b"\x02", b"\x7f", b"\x80\x01", b"\x81\x80\x80\x08", b"\x81\x80\x80\x80\x01", b"\xff\xff\xff\xff\x07", b"\xff\xff\xff\xff\x0f",
                    b"\xff\xff\xff\xff\x7f", b"\xff\xff\xff\xff\xff", b"\x80\x80\x80\x80\x00", b"\x80", b"\xff\x7f"]
_HOSTILE_I16 = [be(-1, 2, True), be(-2, 2, True), be(32767, 2, True), be(-32768, 2, True), be(1, 2, True), be(0, 2, True), be(-32767, 2, True), be(-25536, 2, True)]
_HOSTILE_I32 = [be(-1, 4, True), be(-2, 4, True), be(2**31 - 1, 4, True), be(-(2**31), 4, True), be(1, 4, True), be(2**24, 4, True), be(2**28, 4, True)]
_BYTES = [0x00, 0x01, 0x7F, 0x80, 0xFF, 0xFE, 0x02]


def _edit_strategy():
    kind = st.sampled_from(["overwrite", "overwrite", "hostile_len", "hostile_len", "set_cont", "insert", "delete", "truncate",
                            "dup", "flipbit", "clear_cont"])
    role = st.sampled_from([None, "len", "len", "tagcount", "tag", "tagsize", "marker", "value"])
    return st.tuples(kind, role, st.integers(0, 10**6), st.integers(0, 10**6), st.binary(max_size=6))


def _extra(cd):
    edits = st.lists(_edit_strategy(), min_size=1, max_size=4)
    rnd = st.one_of(
        st.binary(max_size=64),
        st.lists(st.sampled_from(_BYTES), max_size=48).map(bytes),
        st.tuples(st.sampled_from(_BYTES), st.integers(0, 256)).map(lambda t: bytes([t[0]]) * t[1]),
    )
    many = st.tuples(st.just("repeat_tags"), st.sampled_from([2, 3, 50, 150, 300, 700, 1200]))
    return st.one_of(st.tuples(st.just("mutate"), edits), st.tuples(st.just("mutate"), edits), st.tuples(st.just("random"), rnd), many)


def apply_edits(data: bytes, om: OffsetMap, edits) -> bytes:
    buf = bytearray(data)
    spans = list(om.spans)
    for kind, role, sel, sel2, payload in edits:
        cands = [s for s in spans if s[3] == role and s[1] <= len(buf)] if role else []
        if cands:
            s, e, _p, r = cands[sel % len(cands)]
        elif buf:
            s = sel % len(buf)
            e = min(len(buf), s + 1 + sel2 % 4)
            r = "value"
        else:
            s = e = 0
            r = "value"
        if kind == "overwrite" and e > s:
            pos = s + sel2 % (e - s)
            buf[pos] = payload[0] if payload else _BYTES[sel2 % len(_BYTES)]
        elif kind == "flipbit" and e > s:
            pos = s + sel2 % (e - s)
            buf[pos] ^= 1 << (sel % 8)
        elif kind == "set_cont" and e > s:
            buf[e - 1] |= 0x80
        elif kind == "clear_cont" and e > s:
            buf[s] &= 0x7F
        elif kind == "hostile_len":
            width = e - s
            if r in ("len", "tagcount", "tag", "tagsize") and width in (2, 4) and r == "len":
                pool = _HOSTILE_I16 if width == 2 else _HOSTILE_I32
                buf[s:e] = pool[sel2 % len(pool)]
                if width == 2 and sel % 3 == 0:
                    # ... followed by plenty of well-formed text, so that a reader which takes the hostile prefix for a large
                    # (unsigned) length finds the bytes it asks for
                    buf[e:e] = b"a" * 70000
            else:
                buf[s:e] = _HOSTILE_VARINTS[sel2 % len(_HOSTILE_VARINTS)]
        elif kind == "insert":
            buf[s:s] = payload or b"\x00"
        elif kind == "delete":
            del buf[s:e]
        elif kind == "truncate":
            del buf[s + sel2 % (e - s + 1):]
        elif kind == "dup":
            buf[e:e] = buf[s:e]
    return bytes(buf)


def build_input(cd, tree, extra) -> tuple[bytes, bytes | None]:
    """-> (input bytes, original valid encoding or None)"""
    mode, arg = extra
    if mode == "random":
        return arg, None
    om = OffsetMap()
    try:
        valid = ref_encode(cd, tree, om)
    except RefEncodeError:
        return b"", None
    if mode == "repeat_tags":
        # the whole top-level tagged section repeated N times (count patched): the same known tags over and over.  Not
        # conforming (tags must ascend), tolerated by the decoder (last one wins); the work must stay proportional to the size
        counts = [sp for sp in om.spans if sp[3] == "tagcount"]
        if not counts or not cd.flexible:
            return valid, valid
        s0, e0, _p, _r = max(counts, key=lambda sp: sp[0])
        section = valid[e0:]
        k = 0
        pos = e0
        # number of entries in the section = the count that is on the wire
        from ..refcodec import read_uvarint

        try:
            k, _ = read_uvarint(valid, s0)
        except Exception:
            return valid, valid
        if k == 0 or not section:
            return valid, valid
        n_rep = min(arg, max(1, 32768 // len(section)))  # keep the input below ~32 KiB
        return valid[:s0] + uvarint(k * n_rep) + section * n_rep, valid
    return apply_edits(valid, om, arg), valid


def check_bytes(cd, data: bytes, measure_mem: bool = False):
    outcome, val, calls, reads, consumed = decode_guarded(cd.cls, data, measure_mem)
    if measure_mem:
        note("memory_measured")
    note("decodes")
    note("calls_total", calls)
    note("bytes_total", len(data))
    out = []
    if outcome == "cost":
        out.append(("cost-bound:python-calls", f"{cd.path}: decoding {len(data)} bytes needed more than "
                    f"{CALLS_A}+{CALLS_B}*len Python calls; input {data.hex()[:400]}"))
        return out, outcome, reads
    if outcome == "mem":
        out.append(("cost-bound:memory", f"{cd.path}: decoding {len(data)} bytes had a {val} (allowed {MEM_A}+{MEM_B}*len); "
                    f"input {data.hex()[:400]}"))
        return out, outcome, reads
    if outcome == "raised":
        e = val
        from ..streams import ReadBudgetExceeded

        if isinstance(e, ReadBudgetExceeded):
            out.append(("cost-bound:read-calls", f"{cd.path}: more than {READS_A}+{READS_B}*len read calls; input {data.hex()[:400]}"))
        elif isinstance(e, ALLOWED) and isinstance(e, Exception):
            note("rejected:" + type(e).__name__)
        else:
            out.append((f"internal-error:{K.exc_signature(e)}", f"{cd.path}: decoding {data.hex()[:400]} raised {e!r}"))
        if consumed > len(data):
            out.append(("overconsumed", f"{cd.path}: consumed {consumed} of {len(data)}"))
        return out, outcome, reads
    note("accepted")
    if consumed > len(data):
        out.append(("overconsumed", f"{cd.path}: consumed {consumed} of {len(data)}"))
    # anything returned can be encoded again, and decode->encode is idempotent on it
    try:
        b1 = K.encode(cd.cls, val)
    except Exception as e:
        out.append((f"returned-value-not-encodable:{K.exc_signature(e)}",
                    f"{cd.path}: decoder accepted {data.hex()[:400]} and returned {val!r:.400}, but encoding it raised {e!r}"))
        return out, outcome, reads
    try:
        v2, used2 = K.decode(cd.cls, b1)
        b2 = K.encode(cd.cls, v2)
        if b2 != b1 or used2 != len(b1):
            out.append(("reencode-not-idempotent", f"{cd.path}: input {data.hex()[:300]}\n pass1 {b1.hex()[:300]}\n pass2 {b2.hex()[:300]}"))
    except Exception as e:
        out.append((f"reencoded-bytes-rejected:{K.exc_signature(e)}", f"{cd.path}: {b1.hex()[:300]} (re-encoding of an accepted input) raised {e!r}"))
    return out, outcome, reads


_state = {"reads": 0, "differs": False}


def check(cd, tree, extra):
    data, valid = build_input(cd, tree, extra)
    measure = extra[0] == "mutate" and any(e[0] == "hostile_len" for e in extra[1])
    out, outcome, reads = check_bytes(cd, data, measure)
    _state["reads"] = reads
    _state["differs"] = valid is None or data != valid
    note("mode:" + extra[0])
    return out


def nontrivial(cd, tree, labels, extra):
    return _state["differs"] and _state["reads"] >= 2


def sample_of(cd, tree, extra):
    data, valid = build_input(cd, tree, extra)
    return {"class": cd.path, "mode": extra[0], "input": data.hex()[:300], "valid_original": None if valid is None else valid.hex()[:300]}


SPEC = TreeSpec(
    prop=ID,
    level="exploration",
    rule=(
        "one Hypothesis run per entity class; each case is either random bytes (0-64 random, boundary-byte strings, runs "
        "of one byte up to 256) or a structure-aware mutation of a reference encoding: 1-4 edits (overwrite, bit flip, "
        "set/clear varint continuation bit, hostile length (-2, -1, 2^24, 2^28, 2^31-1, 2^35-1, overlong varint), insert, delete, "
        "truncate, duplicate) placed via the reference offset map on length prefixes, tag counts, tag numbers, tag sizes, "
        "nullable markers or values - or the top-level tagged section repeated 2..1200 times with the count patched. Oracle: decode returns or raises SerialError/ValueError/OverflowError; Python calls "
        "(sys.setprofile) <= 400+32*len and read calls <= 16+8*len (counted, the profiler aborts the decode beyond the "
        "bound); half of the inputs are served by a real io.BytesIO subclass that also bounds the bytes handed out through read/read1/getvalue/getbuffer/readinto to 64 + 4*len; for cases with a hostile length, peak traced allocation (tracemalloc) <= 1 MiB + 1 KiB*len; bytes consumed <= len; a returned entity must encode, and decode->encode of that must be idempotent. "
        "Scaling stage: for each array/bytes/unknown-tag shape a VALID message is decoded at 4000 and 32000 items; CPU time of the decoding thread must stay proportional "
        "(violation only if the ratio exceeds 24 AND the larger decode needs more than 0.25 CPU-seconds, minimum of three runs, measured twice). "
        "Non-trivial = input differs from the valid encoding it was derived from (or is random) and the decoder got past "
        "the first read (>=2 reads); distinct by hash of (class, tree, edits)."
    ),
    profile=PROFILE,
    check=check,
    nontrivial=nontrivial,
    extra=_extra,
    sample_of=sample_of,
    quick_examples=120,
    thorough_examples=400,
    tagged_boost=3,
    assumptions=(
        "cost is measured in Python-level call events, stream read calls and (for hostile-length cases) tracemalloc peak, not wall clock; the scaling stage compares thread CPU time at two input sizes (ratio and floor, see rule)",
        "negative read sizes are served like io.BytesIO does (read to end)",
    ),
    floors={"nontrivial": 0.3},
)


# --------------------------------------------------------------------------- scaling stage
# "decoding finishes in time proportional to the input size": the call/read/byte counters above cannot see work done inside
# one C-level operation (building a result by repeated concatenation, re-scanning a buffer).  For a few shapes a VALID
# message is decoded at size n and 8n and the CPU time of the decoding thread (time.thread_time, not wall clock) compared:
# proportional cost gives a ratio near 8, quadratic cost one near 64.  A violation needs BOTH a ratio above 24 (three
# times the proportional one) and more than 0.25 CPU-seconds for the larger input, in the minimum of three runs and again
# in a second round of three - scheduling noise and a busy machine do not enter CPU time, and cannot produce both.
SCALE_SMALL, SCALE_FACTOR = 4000, 8
SCALE_RATIO, SCALE_FLOOR_S = 24.0, 0.25


def scaling_shapes() -> list[tuple[str, str, str]]:
    """-> [(shape label, class path, field name or '')]: first class (path order) offering each shape at top level"""
    from .. import describe as D

    want = {}
    for cls in D.all_classes():
        cd = D.describe(cls)
        for f in cd.fields:
            if f.tag is not None:
                continue
            if f.array and f.kind in ("int32", "string", "struct", "int64", "uuid"):
                key = f"array:{f.kind}:{'compact' if cd.flexible else 'legacy'}"
            elif not f.array and f.kind in ("bytes", "records"):
                key = f"bytes:{'compact' if cd.flexible else 'legacy'}"
            else:
                continue
            want.setdefault(key, (key, cd.path, f.name))
        if cd.flexible and not cd.is_request_header:
            want.setdefault("unknown-tags", ("unknown-tags", cd.path, ""))
    return [want[k] for k in sorted(want)]


def _scaling_input(cd, fname: str, shape: str, n: int) -> bytes:
    from ..refcodec import UNKNOWN, ref_encode, zero_tree

    tree = zero_tree(cd)
    if shape == "unknown-tags":
        base = max({f.tag for f in cd.tagged_fields} | {0}) + 1
        tree[UNKNOWN] = [(base + i, b"x") for i in range(n)]
    else:
        f = next(x for x in cd.fields if x.name == fname)
        if shape.startswith("bytes"):
            tree[fname] = b"\xa5" * (n * 64)
        elif f.kind == "struct":
            tree[fname] = [zero_tree(f.struct) for _ in range(n)]
        elif f.kind == "string":
            tree[fname] = [b"ab"] * n
        elif f.kind == "uuid":
            tree[fname] = [bytes([1 + i % 200]) * 16 for i in range(n)]
        else:
            tree[fname] = [i % 1000 for i in range(n)]
    return ref_encode(cd, tree)


def _cpu_decode(cls, data: bytes, rounds: int = 3) -> float:
    import time

    reader = K.entity_reader(cls)
    best = None
    for _ in range(rounds):
        buf = io.BytesIO(data)
        t0 = time.thread_time()
        reader(buf)
        dt = time.thread_time() - t0
        if buf.tell() != len(data):
            raise AssertionError("harness: valid scaling input not consumed exactly")
        best = dt if best is None else min(best, dt)
    return best


def check_scaling(shape: str, path: str, fname: str) -> tuple[list, dict]:
    from .. import describe as D

    cd = D.describe(D.resolve(path))
    small = _scaling_input(cd, fname, shape, SCALE_SMALL)
    big = _scaling_input(cd, fname, shape, SCALE_SMALL * SCALE_FACTOR)
    info = {"shape": shape, "class": path, "small_bytes": len(small), "big_bytes": len(big)}
    try:
        for attempt in range(2):
            t_small = max(_cpu_decode(cd.cls, small), 1e-5)
            t_big = _cpu_decode(cd.cls, big)
            info.update(cpu_small=round(t_small, 5), cpu_big=round(t_big, 5), ratio=round(t_big / t_small, 1))
            if not (t_big / t_small > SCALE_RATIO and t_big > SCALE_FLOOR_S):
                return [], info
    except ALLOWED as e:
        return [(f"scaling:valid-input-rejected:{K.exc_signature(e)}", f"{path}: a valid {shape} message was rejected: {e!r:.200}")], info
    except AssertionError:
        raise
    except Exception as e:  # noqa: BLE001 - anything else raised from inside kio is an internal error on valid input
        sig = K.exc_signature(e)
        if sig.endswith("@?"):
            raise
        return [(f"internal-error:{sig}", f"{path}: decoding a valid {shape} message raised {e!r:.200}")], info
    return [(f"scaling:superlinear:{shape.split(':')[0]}",
             f"{path} ({shape}): decoding {len(big)} valid bytes took {t_big:.2f} CPU-s, {len(small)} bytes {t_small:.4f} CPU-s - "
             f"{t_big / t_small:.0f} times the cost for {len(big) / len(small):.1f} times the input (minimum of 3 runs, measured twice)")], info


def _scaling_worker(task):
    return check_scaling(*task)


def run(ctx: Ctx) -> Report:
    rep = run_tree_property(ctx, __name__, SPEC)
    from ..engine import Failure, case_hash, pool_map

    shapes = scaling_shapes()
    rows = []
    for (shape, path, fname), (fails, info) in zip(shapes, pool_map(_scaling_worker, shapes)):
        rep.evaluations += 2
        rep.nontrivial.add(case_hash(("scaling", shape)))
        rows.append(info)
        for sig, msg in fails:
            rep.add_failure(Failure(sig, msg, {"scaling": [shape, path, fname]}, 1))
    rep.extra["scaling"] = rows
    c = rep.extra.get("counters", {})
    if c.get("accepted", 0) < 20 or sum(v for k, v in c.items() if k.startswith("rejected:")) < 20:
        from ..engine import HarnessError

        raise HarnessError(f"generator health: accepted={c.get('accepted')} rejected={c}")
    if not ctx.quick:
        from . import c10_fuzz

        c10_fuzz.run_campaign(ctx, rep)
    return rep


def replay(case):
    from .. import describe as D

    if "scaling" in case:
        return check_scaling(*case["scaling"])[0]
    if "input" in case:
        cd = D.describe(D.resolve(case["class"]))
        return check_bytes(cd, bytes.fromhex(case["input"]), measure_mem=True)[0]
    from ..treeprop import replay_tree_case

    return replay_tree_case(SPEC, case)
