"""C11 -- primitive readers and writers implement the Kafka primitive encodings."""

from __future__ import annotations

import datetime
import io
import itertools
import math
import uuid as _uuid

import hypothesis
from hypothesis import HealthCheck, Phase, given, settings
from hypothesis import strategies as st

from ..engine import Ctx, Failure, Report, case_hash, pool_map
from ..refcodec import EPOCH, be, read_uvarint, unzigzag, uvarint, zigzag
from ..strategies import TD64_MAX_MS, TD64_MIN_MS, TS_MAX_MS, _pow2_neighbours

ID = "C11"
RULE = (
    "each public primitive writer/reader is paired with a reference implementation (int.to_bytes, own LEB128/zig-zag, "
    "own IEEE-754 bit construction via math.frexp): writer(v) bytes == reference bytes, reader(reference bytes + tail) "
    "== v with exact consumption. Domains: 8/16-bit ints exhaustive; 32/64-bit by every 2^k-1,2^k,2^k+1 and limits + "
    "Hypothesis; unsigned/signed varint/varlong exhaustive below 2^16 (quick) / 2^21 (thorough) + every power-of-two "
    "neighbourhood up to the domain limit + Hypothesis; every byte string of length <=2 (quick; <=3 thorough) as varint "
    "input to all four varint readers vs the reference decoder; overlong (5/10 continuation bytes) -> ValueError; "
    "strings/bytes/arrays in legacy and compact form at lengths 0,1,126..129,16383,16384,32767 and null (bytes also at 65535/65536, 2097150..2097153 and 1..48 MiB block multiples), first "
    "out-of-range legacy length must raise; UUIDs incl. zero; every shipped error code; durations and timestamps by "
    "boundaries; out-of-domain values for fixed-width writers must raise without emitting bytes. Non-trivial = value at "
    "or next to a byte-length/sign/width boundary or limit; distinct by (function, value)."
)


class Tally:
    def __init__(self):
        self.evals = 0
        self.nontrivial = set()
        self.failures = {}
        self.samples = []
        self.used = set()

    def fail(self, sig, msg, case):
        if sig not in self.failures or len(msg) < len(self.failures[sig][0]):
            self.failures[sig] = (msg, case)


def _R():
    from kio.serial import readers

    return readers


def _W():
    from kio.serial import writers

    return writers


def wr(fn, *args) -> bytes:
    buf = io.BytesIO()
    fn(buf, *args)
    return buf.getvalue()


def rd(fn, data: bytes, tail: bytes = b"\xa5"):
    """-> (value, consumed)"""
    buf = io.BytesIO(data + tail)
    v = fn(buf)
    return v, buf.tell()


# --------------------------------------------------------------------------- reference float


def ieee754(x: float) -> bytes | None:
    """Big-endian IEEE-754 binary64 of x without `struct`; None for NaN (payload unknowable)."""
    if x != x:
        return None
    sign = 1 if math.copysign(1.0, x) < 0 else 0
    x = abs(x)
    if x == math.inf:
        bits = 0x7FF << 52
    elif x == 0.0:
        bits = 0
    else:
        m, e = math.frexp(x)  # x = m * 2**e, 0.5 <= m < 1
        exp = e - 1 + 1023
        if exp <= 0:  # subnormal
            mant = int(math.ldexp(x, 1074))
            bits = mant
        else:
            mant = int(math.ldexp(m, 53)) - (1 << 52)
            bits = (exp << 52) | mant
    return ((sign << 63) | bits).to_bytes(8, "big")


def from_ieee754(b: bytes) -> float:
    n = int.from_bytes(b, "big")
    sign = -1.0 if n >> 63 else 1.0
    exp = (n >> 52) & 0x7FF
    mant = n & ((1 << 52) - 1)
    if exp == 0x7FF:
        return sign * math.inf if mant == 0 else math.nan
    if exp == 0:
        return math.copysign(math.ldexp(mant, -1074), sign)
    return sign * math.ldexp((1 << 52) | mant, exp - 1075)


# --------------------------------------------------------------------------- case runners


def check_codec(t: Tally, name: str, writer, reader, value, ref: bytes, expect, boundary: bool, eq=None):
    """writer(value) == ref; reader(ref + tail) == expect with exact consumption."""
    t.evals += 1
    if boundary:
        t.nontrivial.add(case_hash((name, repr(value))))
    case = {"fn": name, "value": repr(value)[:300], "ref": ref.hex()[:300]}
    for fn in (writer, reader):
        if fn is not None:
            t.used.add(fn.__name__)
    if writer is not None:
        try:
            got = wr(writer, value)
        except Exception as e:
            t.fail(f"{name}:writer-raised:{type(e).__name__}", f"{writer.__name__}({value!r}) raised {e!r}", case)
        else:
            if got != ref:
                t.fail(f"{name}:writer-bytes", f"{writer.__name__}({value!r}) = {got.hex()}, Kafka encoding is {ref.hex()}", case)
    if reader is not None:
        try:
            v, used = rd(reader, ref)
        except Exception as e:
            t.fail(f"{name}:reader-raised:{type(e).__name__}", f"{reader.__name__}({ref.hex()}) raised {e!r}", case)
        else:
            same = eq(v, expect) if eq else (v == expect and isinstance(v, bool) == isinstance(expect, bool))
            if not same:
                t.fail(f"{name}:reader-value", f"{reader.__name__}({ref.hex()}) = {v!r}, expected {expect!r}", case)
            if used != len(ref):
                t.fail(f"{name}:reader-consumed", f"{reader.__name__}({ref.hex()}) consumed {used}, encoding has {len(ref)} bytes", case)


def check_rejects(t: Tally, name: str, writer, value, max_bytes: int = 0):
    t.evals += 1
    t.nontrivial.add(case_hash((name, "reject", repr(value)[:80])))
    buf = io.BytesIO()
    t.used.add(writer.__name__)
    case = {"fn": name, "reject": repr(value)[:200]}
    try:
        writer(buf, value)
    except Exception:
        if len(buf.getvalue()) > max_bytes:
            t.fail(f"{name}:partial-output-on-reject", f"{writer.__name__}({value!r:.80}) raised after writing {len(buf.getvalue())} bytes", case)
        return
    t.fail(f"{name}:out-of-domain-accepted", f"{writer.__name__}({value!r:.80}) wrote {buf.getvalue()[:16].hex()} instead of raising", case)


INTS = {
    "int8": (1, True), "int16": (2, True), "int32": (4, True), "int64": (8, True),
    "uint8": (1, False), "uint16": (2, False), "uint32": (4, False), "uint64": (8, False),
}


def _rng(width, signed):
    return (-(2 ** (8 * width - 1)), 2 ** (8 * width - 1) - 1) if signed else (0, 2 ** (8 * width) - 1)


def section_fixed_ints(t: Tally, ctx: Ctx):
    R, W = _R(), _W()
    for kind, (width, signed) in INTS.items():
        lo, hi = _rng(width, signed)
        writer, reader = getattr(W, f"write_{kind}"), getattr(R, f"read_{kind}")
        bnd = set(_pow2_neighbours(lo, hi))
        values = range(lo, hi + 1) if width <= 2 else sorted(bnd)
        for v in values:
            check_codec(t, kind, writer, reader, v, be(v, width, signed), v, v in bnd)
        for v in (lo - 1, hi + 1, lo - 2**width, hi + 2**70, -(2**70)):
            check_rejects(t, kind, writer, v)
        if width > 2:
            n = 1000 if ctx.quick else 5000

            @hypothesis.seed(ctx.subseed("ints", kind))
            @settings(max_examples=n, database=None, deadline=None, phases=[Phase.generate], suppress_health_check=list(HealthCheck))
            @given(st.integers(lo, hi))
            def run(v):
                check_codec(t, kind, writer, reader, v, be(v, width, signed), v, False)

            run()
    # bool
    for v, b in ((True, b"\x01"), (False, b"\x00")):
        check_codec(t, "bool", W.write_boolean, R.read_boolean, v, b, v, True)
    for byte in range(256):
        t.evals += 1
        v, used = rd(R.read_boolean, bytes([byte]))
        if v is not (byte != 0) or used != 1:
            t.fail("bool:reader-value", f"read_boolean({byte:02x}) = {v!r}", {"fn": "bool", "byte": byte})


def section_float(t: Tally, ctx: Ctx):
    R, W = _R(), _W()
    specials = [0.0, -0.0, 1.0, -1.0, 5e-324, -5e-324, 2.2250738585072014e-308, 2.225073858507201e-308,
                1.7976931348623157e308, -1.7976931348623157e308, math.inf, -math.inf, 0.1, 1 / 3, 2.0**52 + 1, 1e22]

    def eq(a, b):
        return isinstance(a, float) and ieee754(a) == ieee754(b)

    for v in specials:
        check_codec(t, "float64", W.write_float64, R.read_float64, v, ieee754(v), v, True, eq)
    # NaN: any NaN encoding is acceptable from the writer; the reader must return a NaN
    t.evals += 1
    got = wr(W.write_float64, math.nan)
    n = int.from_bytes(got, "big")
    if len(got) != 8 or (n >> 52) & 0x7FF != 0x7FF or n & ((1 << 52) - 1) == 0:
        t.fail("float64:nan-writer", f"write_float64(nan) = {got.hex()}", {"fn": "float64", "value": "nan"})
    for pat in ("7ff8000000000000", "7ff0000000000001", "fff8000000000abc"):
        t.evals += 1
        v, used = rd(R.read_float64, bytes.fromhex(pat))
        if not (isinstance(v, float) and v != v) or used != 8:
            t.fail("float64:nan-reader", f"read_float64({pat}) = {v!r}", {"fn": "float64", "ref": pat})
    n_ex = 1500 if ctx.quick else 20000

    @hypothesis.seed(ctx.subseed("float"))
    @settings(max_examples=n_ex, database=None, deadline=None, phases=[Phase.generate], suppress_health_check=list(HealthCheck))
    @given(st.one_of(st.floats(allow_nan=False), st.binary(min_size=8, max_size=8).map(from_ieee754).filter(lambda x: x == x)))
    def run(v):
        check_codec(t, "float64", W.write_float64, R.read_float64, v, ieee754(v), v, False, eq)

    run()


def _varint_table():
    R, W = _R(), _W()
    return {
        "uvarint": (W.write_unsigned_varint, R.read_unsigned_varint, 0, 2**35 - 1, None, 5),
        "uvarlong": (W.write_unsigned_varlong, R.read_unsigned_varlong, 0, 2**64 - 1, None, 10),
        "svarint": (W.write_signed_varint, R.read_signed_varint, -(2**31), 2**31 - 1, 32, 5),
        "svarlong": (W.write_signed_varlong, R.read_signed_varlong, -(2**63), 2**63 - 1, 64, 10),
    }


def _varint_ref(value, bits):
    return uvarint(value) if bits is None else uvarint(zigzag(value, bits))


def _varint_chunk(task):
    name, lo, hi = task
    writer, reader, dlo, dhi, bits, _max = _varint_table()[name]
    t = Tally()
    for v in range(lo, hi):
        ref = _varint_ref(v, bits)
        prev = _varint_ref(v - 1, bits) if v - 1 >= dlo else ref
        check_codec(t, name, writer, reader, v, ref, v, len(prev) != len(ref) or v in (dlo, dhi, 0, -1))
    return t


def _varint_input_chunk(task):
    """All byte strings with a given first byte and total length n, for all four varint readers."""
    first, n = task
    t = Tally()
    table = _varint_table()
    for rest in itertools.product(range(256), repeat=n - 1):
        data = bytes((first,) + rest)
        for name, (_w, reader, _lo, _hi, bits, max_bytes) in table.items():
            t.evals += 1
            try:
                raw, pos = read_uvarint(data, 0, max_bytes)
                expect = ("ok", raw if bits is None else unzigzag(raw), pos)
            except EOFError:
                expect = ("underflow",)
            buf = io.BytesIO(data)
            try:
                v = reader(buf)
                got = ("ok", v, buf.tell())
            except Exception as e:
                from kio.serial.errors import BufferUnderflow

                got = ("underflow",) if isinstance(e, BufferUnderflow) else ("error", type(e).__name__)
            if got != expect:
                t.fail(f"{name}:arbitrary-input", f"{reader.__name__}({data.hex()}) -> {got}, reference LEB128 decoder -> {expect}",
                       {"fn": name, "input": data.hex()})
            if data[-1] >= 0x80 or (n >= 2 and data[-2] >= 0x80):
                t.nontrivial.add(case_hash((name, data)))
    return t


def section_varints(t: Tally, ctx: Ctx):
    table = _varint_table()
    limit = 2**16 if ctx.quick else 2**21
    tasks = []
    step = max(limit // 16, 1024)
    for name, (_w, _r, lo, hi, bits, _m) in table.items():
        a, b = (0, limit) if bits is None else (-limit // 2, limit // 2)
        for s in range(a, b, step):
            tasks.append((name, s, min(s + step, b)))
    for sub in pool_map(_varint_chunk, tasks):
        _merge(t, sub)
    # power-of-two neighbourhoods up to the domain limit + Hypothesis beyond the exhaustive range
    for name, (writer, reader, lo, hi, bits, max_bytes) in table.items():
        for v in _pow2_neighbours(lo, hi):
            check_codec(t, name, writer, reader, v, _varint_ref(v, bits), v, True)
        # 7-bit group boundaries explicitly
        for k in range(1, max_bytes + 1):
            for v in (2 ** (7 * k) - 1, 2 ** (7 * k)):
                for vv in ((v,) if bits is None else (v // 2, -(v // 2) - 1, v // 2 - 1, -(v // 2))):
                    if lo <= vv <= hi:
                        check_codec(t, name, writer, reader, vv, _varint_ref(vv, bits), vv, True)
        n = 1500 if ctx.quick else 20000

        @hypothesis.seed(ctx.subseed("varint", name))
        @settings(max_examples=n, database=None, deadline=None, phases=[Phase.generate], suppress_health_check=list(HealthCheck))
        @given(st.integers(lo, hi))
        def run(v):
            check_codec(t, name, writer, reader, v, _varint_ref(v, bits), v, False)

        run()
        # overlong
        t.evals += 1
        t.nontrivial.add(case_hash((name, "overlong")))
        for data in (b"\x80" * max_bytes + b"\x00", b"\xff" * (max_bytes + 3), b"\x80" * (max_bytes - 1) + b"\xff\x01"):
            try:
                v = reader(io.BytesIO(data))
                t.fail(f"{name}:overlong-accepted", f"{reader.__name__}({data.hex()}) = {v!r}, expected ValueError", {"fn": name, "input": data.hex()})
            except ValueError:
                pass
            except Exception as e:
                t.fail(f"{name}:overlong-wrong-error", f"{reader.__name__}({data.hex()}) raised {e!r}", {"fn": name, "input": data.hex()})
        # the longest valid encoding is accepted
        data = b"\xff" * (max_bytes - 1) + b"\x7f"
        t.evals += 1
        try:
            v, used = rd(reader, data)
            raw = sum(0x7F << (7 * i) for i in range(max_bytes))
            want = raw if bits is None else unzigzag(raw)
            if v != want or used != max_bytes:
                t.fail(f"{name}:max-length-value", f"{reader.__name__}({data.hex()}) = {v!r}, expected {want}", {"fn": name, "input": data.hex()})
        except Exception as e:
            t.fail(f"{name}:max-length-rejected", f"{reader.__name__}({data.hex()}) raised {e!r}", {"fn": name, "input": data.hex()})
    # arbitrary byte strings as input
    n = 2 if ctx.quick else 3
    tasks = [(first, ln) for ln in range(1, n + 1) for first in range(256)]
    for sub in pool_map(_varint_input_chunk, tasks, chunksize=8):
        _merge(t, sub)
    if ctx.quick:
        @hypothesis.seed(ctx.subseed("varint3"))
        @settings(max_examples=400, database=None, deadline=None, phases=[Phase.generate], suppress_health_check=list(HealthCheck))
        @given(st.binary(min_size=3, max_size=12))
        def run3(data):
            sub = Tally()
            # reuse the chunk logic on a single input
            for name, (_w, reader, _lo, _hi, bits, max_bytes) in table.items():
                sub.evals += 1
                try:
                    raw, pos = read_uvarint(data, 0, max_bytes)
                    expect = ("ok", raw if bits is None else unzigzag(raw), pos)
                except EOFError:
                    expect = ("underflow",)
                except ValueError:
                    expect = ("error", "ValueError")
                buf = io.BytesIO(data)
                try:
                    got = ("ok", reader(buf), buf.tell())
                except Exception as e:
                    from kio.serial.errors import BufferUnderflow

                    got = ("underflow",) if isinstance(e, BufferUnderflow) else ("error", type(e).__name__)
                if got != expect:
                    sub.fail(f"{name}:arbitrary-input", f"{reader.__name__}({data.hex()}) -> {got}, reference -> {expect}", {"fn": name, "input": data.hex()})
            _merge(t, sub)

        run3()


def _merge(t: Tally, sub: Tally):
    t.evals += sub.evals
    t.nontrivial |= sub.nontrivial
    t.used |= sub.used
    for sig, (msg, case) in sub.failures.items():
        t.fail(sig, msg, case)


_LENGTHS = [0, 1, 2, 126, 127, 128, 129, 16383, 16384, 32767]


def _text_of_len(n: int, flavour: int) -> bytes:
    unit = [b"a", "å".encode(), "€".encode(), "\U0001f600".encode(), "\ufeff".encode()][flavour]
    body = unit * (n // len(unit))
    return body + b"z" * (n - len(body))


# strings whose FIRST (or last) code point is one that codecs and normalisers like to treat specially: byte order mark,
# NUL, combining mark, line separator, noncharacter, the replacement character
_SPECIAL_TEXTS = ["\ufeffkio", "\ufeff", "\ufeff\ufeff", "k\ufeffio", "kio\ufeff", "\x00kio", "\u0301e", "\u2028x", "\ufffex", "\ufffd", "\u00a0 x \u00a0", "\U0010ffff"]


def section_strings(t: Tally, ctx: Ctx):
    R, W = _R(), _W()
    from kio.serial.errors import OutOfBoundValue, UnexpectedNull

    for n in _LENGTHS + [32768, 70000]:
        for flavour in range(5):
            raw = _text_of_len(n, flavour)
            text = raw.decode()
            compact = uvarint(n + 1) + raw
            bnd = True
            # compact string (both)
            check_codec(t, "compact_string", W.write_compact_string, R.read_compact_string, text, compact, text, bnd)
            check_codec(t, "compact_string_nullable", W.write_nullable_compact_string, R.read_compact_string_nullable, text, compact, text, bnd)
            # compact bytes
            check_codec(t, "compact_bytes", W.write_compact_string, R.read_compact_string_as_bytes, raw, compact, raw, bnd)
            check_codec(t, "compact_bytes_nullable", W.write_nullable_compact_string, R.read_compact_string_as_bytes_nullable, raw, compact, raw, bnd)
            # legacy bytes (int32)
            legacy_b = be(n, 4, True) + raw
            check_codec(t, "legacy_bytes", W.write_legacy_bytes, R.read_legacy_bytes, raw, legacy_b, raw, bnd)
            check_codec(t, "legacy_bytes_nullable", W.write_nullable_legacy_bytes, R.read_nullable_legacy_bytes, raw, legacy_b, raw, bnd)
            # legacy string (int16)
            if n <= 32767:
                legacy_s = be(n, 2, True) + raw
                check_codec(t, "legacy_string", W.write_legacy_string, R.read_legacy_string, text, legacy_s, text, bnd)
                check_codec(t, "legacy_string_nullable", W.write_nullable_legacy_string, R.read_nullable_legacy_string, text, legacy_s, text, bnd)
            else:
                for w in (W.write_legacy_string, W.write_nullable_legacy_string):
                    check_rejects(t, "legacy_string", w, text)
                    t.evals += 1
                    try:
                        w(io.BytesIO(), text)
                    except OutOfBoundValue:
                        pass
                    except Exception as e:
                        t.fail("legacy_string:oversize-wrong-error", f"{w.__name__}(<{n} bytes>) raised {e!r}, documented is OutOfBoundValue", {"fn": "legacy_string", "len": n})
    for text in _SPECIAL_TEXTS:
        raw = text.encode()
        compact, legacy_s = uvarint(len(raw) + 1) + raw, be(len(raw), 2, True) + raw
        check_codec(t, "compact_string", W.write_compact_string, R.read_compact_string, text, compact, text, True)
        check_codec(t, "compact_string_nullable", W.write_nullable_compact_string, R.read_compact_string_nullable, text, compact, text, True)
        check_codec(t, "legacy_string", W.write_legacy_string, R.read_legacy_string, text, legacy_s, text, True)
        check_codec(t, "legacy_string_nullable", W.write_nullable_legacy_string, R.read_nullable_legacy_string, text, legacy_s, text, True)
    # null forms
    nulls = [
        ("compact_string_nullable", W.write_nullable_compact_string, R.read_compact_string_nullable, b"\x00"),
        ("compact_bytes_nullable", W.write_nullable_compact_string, R.read_compact_string_as_bytes_nullable, b"\x00"),
        ("legacy_string_nullable", W.write_nullable_legacy_string, R.read_nullable_legacy_string, b"\xff\xff"),
        ("legacy_bytes_nullable", W.write_nullable_legacy_bytes, R.read_nullable_legacy_bytes, b"\xff\xff\xff\xff"),
    ]
    for name, w, r, ref in nulls:
        check_codec(t, name, w, r, None, ref, None, True)
    for name, w, r, ref in [
        ("compact_string", W.write_compact_string, R.read_compact_string, b"\x00"),
        ("compact_bytes", W.write_compact_string, R.read_compact_string_as_bytes, b"\x00"),
        ("legacy_string", W.write_legacy_string, R.read_legacy_string, b"\xff\xff"),
        ("legacy_bytes", W.write_legacy_bytes, R.read_legacy_bytes, b"\xff\xff\xff\xff"),
    ]:
        check_rejects(t, name + ":none", w, None)
        t.evals += 1
        try:
            v = r(io.BytesIO(ref))
            t.fail(f"{name}:null-accepted", f"{r.__name__}({ref.hex()}) = {v!r}, expected UnexpectedNull", {"fn": name, "ref": ref.hex()})
        except UnexpectedNull:
            pass
        except Exception as e:
            t.fail(f"{name}:null-wrong-error", f"{r.__name__}({ref.hex()}) raised {e!r}", {"fn": name, "ref": ref.hex()})
    # illegal length prefixes: a negative legacy length other than -1 is not an encoding of anything.  Kafka's own readers
    # treat every negative length as null, kio raises; either is a rejection of the bytes that follow - what a reader must
    # never do is hand those bytes out as the value.
    for name, r, width in [
        ("legacy_string", R.read_legacy_string, 2), ("legacy_string_nullable", R.read_nullable_legacy_string, 2),
        ("legacy_bytes", R.read_legacy_bytes, 4), ("legacy_bytes_nullable", R.read_nullable_legacy_bytes, 4),
    ]:
        for bad in (-2, -3, -128, -(2 ** (8 * width - 1))):
            for payload in (b"", b"x", b"payload-bytes-that-follow"):
                data = be(bad, width, True) + payload
                t.evals += 1
                t.nontrivial.add(case_hash(("neglen", name, bad, payload)))
                try:
                    v = r(io.BytesIO(data))
                except Exception:
                    continue
                if v is not None and len(v) > 0:
                    t.fail(f"{name}:negative-length-returns-data", f"{r.__name__}({data.hex()}) returned {v!r}: length prefix {bad} is not an encoding",
                           {"fn": name, "ref": data.hex()})
                elif v is not None and "nullable" not in name:
                    t.fail(f"{name}:negative-length-accepted", f"{r.__name__}({data.hex()}) returned {v!r} for length prefix {bad}",
                           {"fn": name, "ref": data.hex()})
    # large bytes values: sizes at which the compact length prefix changes width (length + 1 = 2^21, 2^28) and exact
    # multiples of block sizes between 64 KiB and 48 MiB (chunked reads / writes); bytes and records fields may hold up
    # to 2^31 - 1 bytes.  Compared without rendering the payload.
    big = [65535, 65536, 2097150, 2097151, 2097152, 2097153, 1 << 20, 1 << 22, 1 << 23, 3 << 22, 1 << 24, (1 << 24) + 1, 1 << 25, 3 << 24,
           1000000, 1048588, 5 << 20, 10 << 20, 10000000, 20 << 20, 30 << 20, 50 << 20]  # decimal / Kafka configuration sizes
    if not ctx.quick:
        big += [(1 << 28) - 2, (1 << 28) - 1, 1 << 26, 5 << 24]
    for n in big:
        raw = (b"kio-big-value-" * (n // 14 + 1))[:n]
        compact = uvarint(n + 1) + raw
        legacy_b = be(n, 4, True) + raw
        for name, w, r, ref in [
            ("compact_bytes", W.write_compact_string, R.read_compact_string_as_bytes, compact),
            ("compact_bytes_nullable", W.write_nullable_compact_string, R.read_compact_string_as_bytes_nullable, compact),
            ("legacy_bytes", W.write_legacy_bytes, R.read_legacy_bytes, legacy_b),
            ("legacy_bytes_nullable", W.write_nullable_legacy_bytes, R.read_nullable_legacy_bytes, legacy_b),
            ("read_exact", None, lambda b, n=n: R.read_exact(b, n), raw),
        ]:
            t.evals += 1
            t.nontrivial.add(case_hash(("big", name, n)))
            case = {"fn": name, "big": n}
            if w is not None:
                try:
                    got = wr(w, raw)
                    if got != ref:
                        k = next((i for i, (a, b) in enumerate(zip(got, ref)) if a != b), min(len(got), len(ref)))
                        t.fail(f"{name}:writer-bytes:big", f"{w.__name__}(<{n} bytes>) wrote {len(got)} bytes, the Kafka encoding has {len(ref)}; "
                               f"first difference at offset {k}: {got[k:k + 8].hex()} vs {ref[k:k + 8].hex()}", case)
                except Exception as e:
                    t.fail(f"{name}:writer-raised:{type(e).__name__}:big", f"{w.__name__}(<{n} bytes>) raised {type(e).__name__}: {str(e)[:200]}", case)
            try:
                v, used = rd(r, ref)
                if v != raw:
                    t.fail(f"{name}:reader-value:big", f"reading a {n}-byte value returned {len(v) if v is not None else None} bytes / different content", case)
                if used != len(ref):
                    t.fail(f"{name}:reader-consumed:big", f"reading a {n}-byte value consumed {used} of {len(ref)} bytes", case)
            except Exception as e:
                t.fail(f"{name}:reader-raised:{type(e).__name__}:big", f"reading a complete {n}-byte value raised {type(e).__name__}: {str(e)[:200]}", case)
    n_ex = 600 if ctx.quick else 5000

    @hypothesis.seed(ctx.subseed("strings"))
    @settings(max_examples=n_ex, database=None, deadline=None, phases=[Phase.generate], suppress_health_check=list(HealthCheck))
    @given(st.text(max_size=300))
    def run(text):
        try:
            raw = text.encode()
        except UnicodeEncodeError:
            return
        n = len(raw)
        check_codec(t, "compact_string", W.write_compact_string, R.read_compact_string, text, uvarint(n + 1) + raw, text, False)
        check_codec(t, "legacy_string", W.write_legacy_string, R.read_legacy_string, text, be(n, 2, True) + raw, text, False)
        check_codec(t, "legacy_bytes", W.write_legacy_bytes, R.read_legacy_bytes, raw, be(n, 4, True) + raw, raw, False)

    run()


class _HugeSeq:
    def __init__(self, n):
        self.n = n

    def __len__(self):
        return self.n

    def __iter__(self):
        raise AssertionError("iterated an oversize sequence")


def section_arrays(t: Tally, ctx: Ctx):
    R, W = _R(), _W()
    for n in (0, 1, 2, 126, 127, 128, 129, 16383, 16384):
        items = tuple((i * 7919) % 65536 - 32768 for i in range(n))
        body = b"".join(be(i, 2, True) for i in items)
        check_codec(t, "compact_array", W.compact_array_writer(W.write_int16), R.compact_array_reader(R.read_int16),
                    items, uvarint(n + 1) + body, items, True)
        check_codec(t, "legacy_array", W.legacy_array_writer(W.write_int16), R.legacy_array_reader(R.read_int16),
                    items, be(n, 4, True) + body, items, True)
        check_codec(t, "compact_array_length", W.write_compact_array_length, R.read_compact_array_length, n, uvarint(n + 1), n, True)
        check_codec(t, "legacy_array_length", W.write_legacy_array_length, R.read_legacy_array_length, n, be(n, 4, True), n, True)
    check_codec(t, "compact_array", W.compact_array_writer(W.write_int16), R.compact_array_reader(R.read_int16), None, b"\x00", None, True)
    check_codec(t, "legacy_array", W.legacy_array_writer(W.write_int16), R.legacy_array_reader(R.read_int16), None, b"\xff\xff\xff\xff", None, True)
    check_codec(t, "compact_array_length", W.write_compact_array_length, R.read_compact_array_length, -1, b"\x00", -1, True)
    check_codec(t, "legacy_array_length", W.write_legacy_array_length, R.read_legacy_array_length, -1, b"\xff\xff\xff\xff", -1, True)
    # the factories composed with EVERY fixed-width item reader/writer, items at the limits of the item type, lengths on
    # both sides of 64 and 128 (bulk paths are usually gated on a size)
    import struct as _struct

    for suffix, width, signed in (("int8", 1, True), ("uint8", 1, False), ("int16", 2, True), ("uint16", 2, False),
                                  ("int32", 4, True), ("uint32", 4, False), ("int64", 8, True), ("uint64", 8, False)):
        rfn, wfn = getattr(R, "read_" + suffix, None), getattr(W, "write_" + suffix, None)
        if rfn is None or wfn is None:
            continue
        lo, hi = (-(2 ** (8 * width - 1)), 2 ** (8 * width - 1) - 1) if signed else (0, 2 ** (8 * width) - 1)
        edge = [lo, hi, 0, 1, hi - 1, lo + 1, hi // 2, hi // 2 + 1]
        for n in (1, 3, 8, 63, 64, 65, 130):
            items = tuple(edge[i % len(edge)] for i in range(n))
            body = b"".join(be(i, width, signed) for i in items)
            check_codec(t, f"compact_array_of_{suffix}", W.compact_array_writer(wfn), R.compact_array_reader(rfn), items, uvarint(n + 1) + body, items, True)
            check_codec(t, f"legacy_array_of_{suffix}", W.legacy_array_writer(wfn), R.legacy_array_reader(rfn), items, be(n, 4, True) + body, items, True)
    for n in (1, 64, 65):
        fl = tuple([0.0, -0.0, 1.5, -2.5e300, 5e-324][i % 5] for i in range(n))
        body = b"".join(_struct.pack(">d", x) for x in fl)
        check_codec(t, "compact_array_of_float64", W.compact_array_writer(W.write_float64), R.compact_array_reader(R.read_float64), fl, uvarint(n + 1) + body, fl, True,
                    eq=lambda a, b: a is not None and b is not None and len(a) == len(b) and all(_struct.pack(">d", x) == _struct.pack(">d", y) for x, y in zip(a, b)))
    # nested arrays of strings (item writer composition)
    items = ("", "a", "å€")
    body = b"".join(uvarint(len(s.encode()) + 1) + s.encode() for s in items)
    check_codec(t, "compact_array_of_strings", W.compact_array_writer(W.write_compact_string), R.compact_array_reader(R.read_compact_string),
                items, uvarint(4) + body, items, True)
    # first out-of-range legacy length: must raise before writing/iterating
    check_rejects(t, "legacy_array:oversize", W.legacy_array_writer(W.write_int16), _HugeSeq(2**31))
    t.evals += 1
    try:
        wr(W.write_empty_tagged_fields)
        if wr(W.write_empty_tagged_fields) != b"\x00":
            t.fail("empty_tagged_fields", f"wrote {wr(W.write_empty_tagged_fields).hex()}", {"fn": "write_empty_tagged_fields"})
    except Exception as e:
        t.fail("empty_tagged_fields", repr(e), {"fn": "write_empty_tagged_fields"})
    for tag in (0, 1, 127, 128, 16383, 16384, 2**31 - 1):
        for payload in (b"", b"x", b"y" * 127, b"z" * 128, b"q" * 16384):
            t.evals += 1
            t.nontrivial.add(case_hash(("tagged_field", tag, len(payload))))
            got = wr(W.write_tagged_field, tag, lambda b, v: b.write(v), payload)
            want = uvarint(tag) + uvarint(len(payload)) + payload
            if got != want:
                t.fail("tagged_field:writer-bytes", f"write_tagged_field(tag={tag}, {len(payload)} bytes) = {got[:12].hex()}.., expected {want[:12].hex()}..",
                       {"fn": "write_tagged_field", "tag": tag, "len": len(payload)})
    # a tagged field whose value contains a tagged field itself (a tagged struct with its own tagged section, KIP-482)
    for depth in (2, 3):
        t.evals += 1
        t.nontrivial.add(case_hash(("tagged_field_nested", depth)))

        def nested_writer(level):
            def w(b, v):
                b.write(b"\x00\x00\x00" + bytes([level]))
                if level < depth:
                    W.write_tagged_field(b, 9 + level, nested_writer(level + 1), v)
                b.write(b"zz")
            return w

        def nested_ref(level):
            inner = b"\x00\x00\x00" + bytes([level])
            if level < depth:
                payload = nested_ref(level + 1)
                inner += uvarint(9 + level) + uvarint(len(payload)) + payload
            return inner + b"zz"

        want = uvarint(5) + uvarint(len(nested_ref(1))) + nested_ref(1)
        try:
            got = wr(W.write_tagged_field, 5, nested_writer(1), None)
        except Exception as e:
            t.fail(f"tagged_field:nested-raised:{type(e).__name__}", f"write_tagged_field nested {depth} deep raised {e!r}", {"fn": "write_tagged_field", "depth": depth})
        else:
            if got != want:
                t.fail("tagged_field:nested-writer-bytes", f"write_tagged_field nested {depth} deep = {got.hex()}, expected {want.hex()}", {"fn": "write_tagged_field", "depth": depth})
    # read_exact
    from kio.serial.errors import BufferUnderflow

    for n, avail in ((0, 0), (1, 1), (4, 4), (4, 3), (1, 0), (100, 99), (5, 10)):
        t.evals += 1
        t.nontrivial.add(case_hash(("read_exact", n, avail)))
        buf = io.BytesIO(bytes(range(avail)))
        try:
            v = R.read_exact(buf, n)
            ok = avail >= n and v == bytes(range(n)) and buf.tell() == n
        except BufferUnderflow:
            ok = avail < n
        if not ok:
            t.fail("read_exact", f"read_exact(<{avail} bytes>, {n}) misbehaved", {"fn": "read_exact", "n": n, "avail": avail})


def section_dst(t: Tally, ctx: Ctx):
    """Timestamp writers on aware datetimes of DST-observing zones: both fold twins of a repeated wall-clock time, and both
    sides of an offset change on one local day, written one after the other (in both orders)."""
    import datetime as _dt
    import zoneinfo

    R, W = _R(), _W()
    from ..strategies import DST_INSTANTS

    epoch = _dt.datetime(1970, 1, 1, tzinfo=_dt.timezone.utc)
    for zone in ("Europe/Paris", "America/New_York", "Australia/Lord_Howe", "Europe/Berlin"):
        try:
            tz = zoneinfo.ZoneInfo(zone)
        except Exception:
            continue
        for order in (DST_INSTANTS, DST_INSTANTS[::-1]):
            for ms in order:
                for extra_ms in (0, 1, 999):
                    dt = (epoch + _dt.timedelta(milliseconds=ms + extra_ms)).astimezone(tz)
                    for name, w in (("datetime_i64", W.write_datetime_i64), ("datetime_i64_nullable", W.write_nullable_datetime_i64)):
                        t.evals += 1
                        t.nontrivial.add(case_hash(("dst", zone, ms + extra_ms, name)))
                        want = be(ms + extra_ms, 8, True)
                        try:
                            got = wr(w, dt)
                        except Exception as e:
                            t.fail(f"{name}:writer-raised:{type(e).__name__}", f"{w.__name__}({dt!r} fold={dt.fold}) raised {e!r}", {"fn": name, "zone": zone, "ms": ms + extra_ms})
                            continue
                        if got != want:
                            t.fail(f"{name}:writer-bytes:dst", f"{w.__name__}({dt.isoformat()} fold={dt.fold}, {zone}) = {got.hex()}, the instant is {ms + extra_ms} ms = {want.hex()}",
                                   {"fn": name, "zone": zone, "ms": ms + extra_ms})


def section_misc(t: Tally, ctx: Ctx):
    R, W = _R(), _W()
    from kio.schema.errors import ErrorCode
    from kio.serial.errors import OutOfBoundValue

    # uuid
    vals = [bytes(16), bytes(15) + b"\x01", b"\x01" + bytes(15), b"\xff" * 16, bytes(range(16))]
    for raw in vals:
        py = None if raw == bytes(16) else _uuid.UUID(bytes=raw)
        check_codec(t, "uuid", W.write_uuid, R.read_uuid, py, raw, py, True)
    # error codes: every member
    for e in ErrorCode:
        check_codec(t, "error_code", W.write_error_code, R.read_error_code, e, be(int(e), 2, True), e, True,
                    eq=lambda a, b: a is b)
    # durations
    ms1 = datetime.timedelta(milliseconds=1)
    for name, width, lo, hi, w, r in (
        ("timedelta_i32", 4, -(2**31), 2**31 - 1, W.write_timedelta_i32, R.read_timedelta_i32),
        ("timedelta_i64", 8, TD64_MIN_MS, TD64_MAX_MS, W.write_timedelta_i64, R.read_timedelta_i64),
    ):
        bnd = _pow2_neighbours(lo, hi)
        for ms in bnd:
            td = datetime.timedelta(milliseconds=ms)
            check_codec(t, name, w, r, td, be(ms, width, True), td, True)
        n = 1000 if ctx.quick else 10000

        @hypothesis.seed(ctx.subseed("td", name))
        @settings(max_examples=n, database=None, deadline=None, phases=[Phase.generate], suppress_health_check=list(HealthCheck))
        @given(st.integers(lo, hi))
        def run(ms):
            td = datetime.timedelta(milliseconds=ms)
            check_codec(t, name, w, r, td, be(ms, width, True), td, False)

        run()
    for ms in (2**31, -(2**31) - 1, 2**40):
        check_rejects(t, "timedelta_i32", W.write_timedelta_i32, datetime.timedelta(milliseconds=ms))
    # timestamps
    ts_b = [0, 1, 999, 1000, 1001, 1500, 2**31 * 1000 - 1, 2**31 * 1000, 1700000000123, 2**41 + 7, TS_MAX_MS - 999, TS_MAX_MS - 1, TS_MAX_MS]
    for ms in ts_b:
        dt = EPOCH + datetime.timedelta(milliseconds=ms)
        check_codec(t, "datetime_i64", W.write_datetime_i64, R.read_datetime_i64, dt, be(ms, 8, True), dt, True)
        check_codec(t, "datetime_i64_nullable", W.write_nullable_datetime_i64, R.read_nullable_datetime_i64, dt, be(ms, 8, True), dt, True)
        # equal instant in another zone encodes identically
        t.evals += 1
        try:
            other = dt.astimezone(datetime.timezone(datetime.timedelta(hours=-7, minutes=-30)))
            if wr(W.write_datetime_i64, other) != be(ms, 8, True):
                t.fail("datetime_i64:zone-dependent", f"write_datetime_i64({other!r}) != encoding of the same instant in UTC", {"fn": "datetime_i64", "ms": ms})
        except OverflowError:
            pass
    check_codec(t, "datetime_i64_nullable", W.write_nullable_datetime_i64, R.read_nullable_datetime_i64, None, be(-1, 8, True), None, True)
    for ms in ts_b:
        t.evals += 1
        if R.tz_aware_from_i64(ms) != EPOCH + datetime.timedelta(milliseconds=ms):
            t.fail("tz_aware_from_i64", f"tz_aware_from_i64({ms}) = {R.tz_aware_from_i64(ms)!r}", {"fn": "tz_aware_from_i64", "ms": ms})
    for ms in (-1, -2, -(2**63), TS_MAX_MS + 1):
        t.evals += 1
        t.nontrivial.add(case_hash(("datetime_i64", "reject", ms)))
        try:
            v = R.read_datetime_i64(io.BytesIO(be(ms, 8, True)))
            t.fail("datetime_i64:out-of-range-accepted", f"read_datetime_i64({ms}) = {v!r}", {"fn": "datetime_i64", "ms": ms})
        except (OutOfBoundValue, ValueError, OverflowError):
            pass
        except Exception as e:
            t.fail("datetime_i64:out-of-range-wrong-error", f"read_datetime_i64({ms}) raised {e!r}", {"fn": "datetime_i64", "ms": ms})
    n = 1000 if ctx.quick else 10000

    @hypothesis.seed(ctx.subseed("ts"))
    @settings(max_examples=n, database=None, deadline=None, phases=[Phase.generate], suppress_health_check=list(HealthCheck))
    @given(st.integers(0, TS_MAX_MS))
    def run_ts(ms):
        dt = EPOCH + datetime.timedelta(milliseconds=ms)
        check_codec(t, "datetime_i64", W.write_datetime_i64, R.read_datetime_i64, dt, be(ms, 8, True), dt, ms % 1000 != 0)

    run_ts()


SECTIONS = [section_fixed_ints, section_float, section_varints, section_strings, section_arrays, section_misc, section_dst]


def public_functions() -> dict:
    import inspect

    R, W = _R(), _W()
    out = {}
    for mod in (R, W):
        for name, fn in vars(mod).items():
            if callable(fn) and not name.startswith("_") and getattr(fn, "__module__", None) == mod.__name__ and inspect.isfunction(fn):
                out[f"{mod.__name__.rsplit('.', 1)[1]}.{name}"] = fn
    return out


def tz_child_failures() -> list:
    """section_misc and section_dst (durations, timestamps) once more in a child interpreter whose LOCAL time zone is not
    UTC (TZ=America/New_York): the wire value of a timestamp is an instant, the zone the process runs in must not matter."""
    import json
    import os
    import subprocess
    import sys
    import tempfile

    from ..engine import HarnessError

    with tempfile.TemporaryDirectory(prefix="kv-c11-") as d:
        out = os.path.join(d, "out.json")
        code = ("import json,sys,time\nassert time.tzname[0] != 'UTC' and time.localtime(0).tm_hour != 0, time.tzname\n"
                "from kv.props import c11\nfrom kv.engine import Ctx\nt = c11.Tally()\nctx = Ctx(prop='C11', tier='quick', seed=1)\n"
                "from kv import kioapi as K\n"
                "for sec in (c11.section_misc, c11.section_dst):\n"
                "    try:\n        sec(t, ctx)\n"
                "    except Exception as e:\n"
                "        sig = K.exc_signature(e)\n"
                "        if sig.endswith('@?'): raise\n"
                "        t.fail('section-raised:' + sig, f'{sec.__name__}: a call the section expects to succeed raised {e!r}', {})\n"
                "json.dump({'evals': t.evals, 'failures': [[s, m] for s, (m, _c) in t.failures.items()]}, open(sys.argv[1], 'w'))")
        env = {**os.environ, "TZ": "America/New_York"}
        r = subprocess.run([sys.executable, "-c", code, out], capture_output=True, text=True, timeout=900, env=env,
                           cwd=os.path.dirname(os.path.dirname(os.path.dirname(os.path.abspath(__file__)))))
        if r.returncode != 0 or not os.path.exists(out):
            raise HarnessError(f"TZ child failed (exit {r.returncode}): {r.stderr[-800:]}")
        doc = json.load(open(out))
        return doc["evals"], [(f"local-zone-not-utc:{s}", "[process time zone America/New_York] " + m) for s, m in doc["failures"]]


def run(ctx: Ctx) -> Report:
    rep = Report(prop=ID, level="exploration", rule=RULE)
    t = Tally()
    for sec in SECTIONS:
        sec(t, ctx)
    n_tz, tz_fails = tz_child_failures()
    t.evals += n_tz
    rep.extra["evaluations_in_non_utc_child"] = n_tz
    for sig, msg in tz_fails:
        t.fail(sig, msg, {"fn": "tz-child"})
    rep.evaluations = t.evals
    rep.nontrivial = t.nontrivial
    for sig, (msg, case) in t.failures.items():
        rep.add_failure(Failure(sig, msg, case, len(msg)))
    fns = public_functions()
    rep.extra["public_functions_found"] = len(fns)
    direct = {"read_exact", "write_tagged_field", "write_empty_tagged_fields", "compact_array_writer", "legacy_array_writer",
              "compact_array_reader", "legacy_array_reader", "read_boolean", "tz_aware_from_i64", "read_legacy_array_length"}
    uncovered = sorted(n for n in fns if n.split(".", 1)[1] not in t.used | direct)
    rep.extra["public_functions_not_referenced_by_this_check"] = uncovered
    rep.samples = [
        {"fn": "write_unsigned_varint", "value": 300, "reference": uvarint(300).hex()},
        {"fn": "write_signed_varlong", "value": -(2**63), "reference": uvarint(zigzag(-(2**63), 64)).hex()},
        {"fn": "write_float64", "value": "-0.0", "reference": ieee754(-0.0).hex()},
        {"fn": "read_legacy_string", "value": "len 32767 4-byte UTF-8", "reference": (be(32767, 2, True) + _text_of_len(32767, 3))[:10].hex() + ".."},
        {"fn": "varint readers", "value": "all byte strings of length <= %d" % (2 if ctx.quick else 3)},
    ]
    rep.assumptions = [
        "varint writers are not driven with negative numbers or values beyond 5/10 groups: the property does not claim them "
        "length-limited (_write_varint(-1) does not terminate; noted, outside the stated contract)",
        "NaN payloads are not compared on the writer side (Python floats do not expose them without struct)",
    ]
    return rep


def replay(case):
    if case.get("fn") == "tz-child":
        return tz_child_failures()[1]
    # re-run the section that owns the function; cheap enough in quick mode
    rep = run(Ctx(prop=ID, tier="quick", seed=1))
    return [(f.signature, f.message) for f in rep.failures.values()]
