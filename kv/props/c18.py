"""C18 -- reading a record batch is faithful and rejects damaged data."""

from __future__ import annotations

import datetime
import io
import json
from pathlib import Path

import hypothesis
from hypothesis import HealthCheck, Phase, given, settings
from hypothesis import strategies as st

from .. import kioapi as K
from ..engine import CORPUS_DIR, Ctx, Failure, Report, case_hash, open_findings, pool_map
from ..refbatch import WireBatch, WireHeader, WireRecord, decode_batch, encode_batch
from ..refcodec import EPOCH
from ..strategies import TS_MAX_MS, int_strategy

ID = "C18"
FINDING_ID = "K-C18-subsecond-record-timestamps"
RULE = (
    "batches are produced by the reference encoder kv.refbatch.encode_batch from Hypothesis-generated wire-level "
    "batches (0-5 records, int64 base offset with int32 deltas, record timestamps anywhere in [epoch, 9999-12-31], "
    "null/empty/non-empty keys, values and headers, all header fields over their full ranges; in 1 record of 13 a key or "
    "value of 63..8192 bytes or 63-65 headers, so that length and count varints need 2-3 bytes; 1 batch in 12 stretched so that the checksummed region is exactly 4096, 65536 or 131072 bytes), plus the four "
    "real-broker batches of tests/records/fixtures.py; each batch is read - in every second case after another well-formed batch on the same stream - (a) intact: header fields and "
    "records must equal the encoded ones and write_batch(read_batch(b)) == b; (b) with EVERY single-bit flip from byte "
    "17 (CRC field) to the end, (c) truncated at EVERY length 0..len-1 (batches above 600 bytes: every position in the first 96 "
    "and last 32 bytes and every 7th in between, at most ~256 positions in between for batches above 1800 bytes), (d) with EVERY wrong magic value: each must "
    "raise and never return a batch (read calls are counted, not timed). evaluations = reads executed. Non-trivial = "
    "corruption case; distinct by (batch hash, fault). The main search uses whole-second record timestamps; "
    "sub-second ones are the region of an open known finding and are probed separately. Concurrency: two threads read (and write back) two different batches "
    "from their own streams under a deterministic scheduler, ONE preemption swept over every executed source line of kio in either thread; every result must equal the sequential one."
)


def _blob(maxlen=10):
    return st.one_of(st.none(), st.just(b""), st.binary(min_size=1, max_size=maxlen))


@st.composite
def wire_batches(draw, subsecond: bool):
    n = draw(st.sampled_from([0, 1, 1, 2, 3, 5]))  # 0: empty batches are well-formed (brokers keep them after compaction)
    many = draw(st.integers(0, 39)) == 0  # 1 batch in 40: hundreds of small records, as producers of small messages send
    if many:
        n = draw(st.sampled_from([255, 256, 257, 300, 1000]))
    base_offset = draw(st.one_of(st.sampled_from([0, 1, 2**40, 2**63 - 1 - 2**31, -(2**63) + 2**31]),
                                 st.integers(-(2**63) + 2**31, 2**63 - 1 - 2**31)))
    base_ts = draw(st.one_of(st.sampled_from([0, 999, 1000, 1503229838908, 2**41 + 7, TS_MAX_MS]), st.integers(0, TS_MAX_MS)))
    recs = []
    tss = []
    for i in range(n):
        ts = draw(st.one_of(st.integers(0, TS_MAX_MS), st.integers(-5000, 5000).map(lambda d: min(max(base_ts + d, 0), TS_MAX_MS))))
        if subsecond:
            if ts % 1000 == 0:
                ts += draw(st.integers(1, 999))
            ts = min(ts, TS_MAX_MS)
        else:
            ts -= ts % 1000
        tss.append(ts)
        nh = draw(st.sampled_from([0, 0, 1, 2]))
        key, value = draw(_blob()), draw(_blob(24))
        big = draw(st.integers(0, 39))  # 1 case in 10: a part whose varint length / count needs two or three bytes
        if many and i >= 3:  # the bulk of a many-record batch repeats three drawn shapes
            recs.append(recs[i % 3])
            tss[-1] = base_ts + recs[i % 3].timestamp_delta
            continue
        if big == 0:
            nh = draw(st.sampled_from([63, 64, 65]))
        elif big in (1, 2):
            n_big = draw(st.sampled_from([63, 64, 65, 200, 8191, 8192]))
            unit = draw(st.binary(min_size=1, max_size=3))
            blob = (unit * (n_big // len(unit) + 1))[:n_big]
            key, value = (blob, value) if big == 1 else (key, blob)
        recs.append(WireRecord(
            attributes=draw(int_strategy(-128, 127)),
            timestamp_delta=ts - base_ts,
            offset_delta=draw(st.one_of(st.sampled_from([0, 1, -1, 2**31 - 1, -(2**31), 63, 64]), st.integers(-(2**31), 2**31 - 1))),
            key=key, value=value,
            headers=(tuple(WireHeader(draw(_blob(6)), draw(_blob(6))) for _ in range(nh)) if nh < 60 else
                     tuple(WireHeader(bytes([65 + j % 26]) * (j % 3), None if j % 5 == 0 else bytes([j])) for j in range(nh))),
        ))
    if len(recs) >= 2 and draw(st.integers(0, 15)) == 0:
        # "CRC twins": two records whose header (or key / value) bytes differ by a multiple of the CRC-32C generator
        # polynomial - different content, same length, same CRC-32C.  Anything keyed by a checksum of the content conflates them.
        import dataclasses as _dc

        base = draw(st.binary(min_size=5, max_size=12))
        twin = bytes(b ^ p for b, p in zip(base, b"\xf1\x76\xec\x05\x01" + bytes(len(base) - 5)))
        where = draw(st.sampled_from(["header", "key", "value"]))
        if where == "header":
            recs[0] = _dc.replace(recs[0], headers=(WireHeader(b"request-id", base),))
            recs[1] = _dc.replace(recs[1], headers=(WireHeader(b"request-id", twin),))
        elif where == "key":
            recs[0], recs[1] = _dc.replace(recs[0], key=base), _dc.replace(recs[1], key=twin)
        else:
            recs[0], recs[1] = _dc.replace(recs[0], value=base), _dc.replace(recs[1], value=twin)
    return WireBatch(
        base_offset=base_offset,
        partition_leader_epoch=draw(int_strategy(-(2**31), 2**31 - 1)),
        attributes=draw(int_strategy(-(2**15), 2**15 - 1)),
        last_offset_delta=draw(int_strategy(-(2**31), 2**31 - 1)),
        base_timestamp=base_ts,
        max_timestamp=(max(tss) if tss else draw(st.sampled_from([-1, 0, base_ts]))) + draw(st.sampled_from([0, 0, 1, 1000, 10**6])),
        producer_id=draw(int_strategy(-(2**63), 2**63 - 1)),
        producer_epoch=draw(int_strategy(-(2**15), 2**15 - 1)),
        base_sequence=draw(int_strategy(-(2**31), 2**31 - 1)),
        records=tuple(recs),
    )


class CountingIO(io.BytesIO):
    def __init__(self, data, limit):
        super().__init__(data)
        self.calls = 0
        self.limit = limit

    def read(self, *a):
        self.calls += 1
        if self.calls > self.limit:
            raise RuntimeError("read budget exceeded")
        return super().read(*a)


# a well-formed batch that precedes the batch under test on the same stream in every second read (record sets are
# concatenations of batches, so a batch rarely starts at stream position 0)
def _lead() -> bytes:
    """An empty (zero-record) but well-formed batch with a correct CRC, built once by the reference encoder."""
    global _LEAD_OK
    if _LEAD_OK is None:
        wb = WireBatch(base_offset=0, partition_leader_epoch=0, attributes=0, last_offset_delta=0, base_timestamp=0, max_timestamp=0,
                       producer_id=-1, producer_epoch=-1, base_sequence=-1, records=())
        _LEAD_OK = encode_batch(wb)
    return _LEAD_OK


_LEAD_OK = None


def _read(data: bytes):
    """Read `data` as a batch; every second input (by content) is preceded on the stream by another batch, which is read
    first.  -> (batch, bytes consumed by the batch under test)"""
    from kio.records.readers import read_batch

    if (len(data) + sum(data[:32])) % 2 == 0:
        src = CountingIO(data, 4 * len(data) + 64)
        return read_batch(src), src.tell()
    lead = _lead()
    src = CountingIO(lead + data, 4 * (len(lead) + len(data)) + 128)
    read_batch(src)
    if src.tell() != len(lead):
        raise AssertionError("harness: the leading batch was not consumed exactly")
    return read_batch(src), src.tell() - len(lead)


def check_identity(wb: WireBatch, data: bytes) -> tuple[list, bool]:
    """-> (failures, known_finding_reproduced)"""
    from kio.records.writers import write_batch

    out = []
    known = False
    try:
        rb, used = _read(data)
    except Exception as e:
        return [(f"intact-batch-rejected:{K.exc_signature(e)}", f"read_batch raised {e!r} for well-formed {data.hex()[:1200]}")], False
    if used != len(data):
        out.append(("consumed", f"read_batch consumed {used} of {len(data)} bytes"))
    for name in ("base_offset", "partition_leader_epoch", "attributes", "last_offset_delta", "base_timestamp", "max_timestamp",
                 "producer_id", "producer_epoch", "base_sequence"):
        if getattr(rb, name) != getattr(wb, name):
            out.append((f"header:{name}", f"{name} = {getattr(rb, name)}, encoded {getattr(wb, name)}; batch {data.hex()[:1200]}"))
    if rb.batch_length != len(data) - 12:
        out.append(("header:batch_length", f"batch_length = {rb.batch_length}, encoded {len(data) - 12}"))
    if rb.crc != int.from_bytes(data[17:21], "big"):
        out.append(("header:crc", f"crc = {rb.crc}"))
    if len(rb.records) != len(wb.records):
        out.append(("record-count", f"{len(rb.records)} records returned, {len(wb.records)} encoded"))
    exact_ts = True
    for i, (r, w) in enumerate(zip(rb.records, wb.records)):
        ms = wb.base_timestamp + w.timestamp_delta
        want = EPOCH + datetime.timedelta(milliseconds=ms)
        if r.timestamp != want:
            exact_ts = False
            truncated = EPOCH + datetime.timedelta(milliseconds=ms - ms % 1000)
            if ms % 1000 != 0 and r.timestamp == truncated:
                known = True
            else:
                out.append(("record:timestamp", f"record {i} timestamp {r.timestamp!r}, encoded {ms} ms = {want!r}; batch {data.hex()[:1200]}"))
        if r.timestamp.tzinfo is None or r.timestamp.utcoffset() != datetime.timedelta(0):
            out.append(("record:timestamp-zone", f"record {i} timestamp {r.timestamp!r} is not UTC-aware"))
        for name, got, exp in (("attributes", r.attributes, w.attributes), ("offset", r.offset, wb.base_offset + w.offset_delta),
                               ("key", r.key, w.key), ("value", r.value, w.value),
                               ("headers", tuple((h.key, h.value) for h in r.headers), tuple((h.key, h.value) for h in w.headers))):
            if got != exp or (isinstance(exp, tuple) and not isinstance(got, tuple)):
                out.append((f"record:{name}", f"record {i} {name} = {got!r}, encoded {exp!r}; batch {data.hex()[:1200]}"))
    if not out and exact_ts:
        buf = io.BytesIO()
        try:
            write_batch(buf, rb)
            if buf.getvalue() != data:
                out.append(("write-back-differs", f"write_batch(read_batch(b)) = {buf.getvalue().hex()[:1200]}\n b = {data.hex()[:1200]}"))
        except Exception as e:
            out.append((f"write-back-raised:{K.exc_signature(e)}", f"write_batch(read_batch(b)) raised {e!r}; b = {data.hex()[:1200]}"))
    return out, known


def faults(data: bytes):
    """Yield (label, corrupted bytes) for every enumerated fault.  Batches above 600 bytes (1 generated case in 10) are
    enumerated with a stride in their middle part: every position in the first 96 and last 32 bytes, every 7th between."""
    dense = len(data) <= 600

    coarse = max(7, len(data) // 256)  # at most ~256 positions in the middle part of very large batches

    def picked(pos: int) -> bool:
        return dense or pos < 96 or pos >= len(data) - 32 or pos % coarse == 0

    for pos in range(17, len(data)):
        if not picked(pos):
            continue
        for bit in range(8):
            yield (f"bitflip@{pos}.{bit}", data[:pos] + bytes([data[pos] ^ (1 << bit)]) + data[pos + 1:])
    for n in range(len(data)):
        if picked(n):
            yield (f"truncate@{n}", data[:n])
    for m in range(256):
        if m != 2:
            yield (f"magic={m}", data[:16] + bytes([m]) + data[17:])


def check_faults(data: bytes):
    """-> (n_faults, failures)"""
    n = 0
    out = []
    for label, bad in faults(data):
        n += 1
        try:
            rb, _ = _read(bad)
        except RuntimeError as e:
            if "read budget" in str(e):
                out.append((f"damaged-batch-read-budget:{label.split('@')[0].split('=')[0]}", f"{label}: {e}; batch {data.hex()[:1200]}"))
            continue
        except Exception:
            continue
        kind = label.split("@")[0].split("=")[0]
        region = ""
        if kind == "bitflip":
            pos = int(label.split("@")[1].split(".")[0])
            region = ":crc-field" if pos < 21 else ":checksummed"
        out.append((f"damaged-batch-accepted:{kind}{region}", f"{label}: read_batch returned a batch for damaged input; original ({len(data)} bytes) {data.hex()[:600]}"))
    return n, out


def concurrency_batches() -> list[bytes]:
    """two different well-formed batches with several records, headers and null parts (whole-second timestamps)"""
    out = []
    for seed in (1, 2):
        recs = tuple(WireRecord(attributes=0, timestamp_delta=1000 * i, offset_delta=i, key=(b"k%d" % (seed * 10 + i)) if i % 2 else None,
                                value=bytes([64 + seed]) * (5 + 3 * i + seed), headers=(WireHeader(b"h", bytes([seed, i])),) if i != 1 else ())
                     for i in range(3))
        out.append(encode_batch(WireBatch(base_offset=100 * seed, partition_leader_epoch=seed, attributes=0, last_offset_delta=2, base_timestamp=1700000000000 * seed,
                                          max_timestamp=1700000000000 * seed + 2000, producer_id=seed, producer_epoch=seed, base_sequence=seed, records=recs)))
    return out


def _concurrency_worker(task):
    rep = Report(prop=ID, level="fault_enumeration", rule=RULE)
    concurrency_stage(rep, *task)
    return rep


def concurrency_stage(total: Report, start: int = 0, stride: int = 1) -> None:
    """Two threads read two different batches from their own streams (and write them back); ONE preemption is swept over
    every source line of kio that the reads execute: a thread's result may not depend on what another thread reads at
    the same time."""
    import os

    import kio
    from kio.records.readers import read_batch
    from kio.records.writers import write_batch

    from ..sched import sweep_one_preemption

    datas = concurrency_batches()

    def make_programs():
        def prog(data):
            def body():
                rb = read_batch(io.BytesIO(data))
                buf = io.BytesIO()
                write_batch(buf, rb)
                return rb, buf.getvalue()
            return body
        return [prog(d) for d in datas]

    want = None
    n = 0
    for label, r in sweep_one_preemption(make_programs, os.path.dirname(kio.__file__), stride=stride, start=start):
        n += 1
        total.evaluations += 2
        total.nontrivial.add(case_hash(("concurrent", label)))
        if r.errors:
            tid, e = r.errors[0]
            total.add_failure(Failure(f"concurrent:read-raised:{K.exc_signature(e)}", f"{label}: thread {tid} reading a well-formed batch raised {e!r:.300} "
                                      f"while another thread read a different batch; preempted at {r.preempted_at}", {"what": "concurrent"}, 1))
            break
        if label == "sequential":
            want = r.results
            for (rb, back), d in zip(want, datas):
                if back != d:
                    total.add_failure(Failure("concurrent:harness", "sequential write-back differs", {"what": "concurrent"}, 1))
            continue
        for tid, ((rb, back), (wrb, wback)) in enumerate(zip(r.results, want)):
            if rb != wrb or back != wback:
                total.add_failure(Failure("concurrent:read-differs", f"{label}: thread {tid} read {rb!r:.300} - alone it reads {wrb!r:.300}; preempted at {r.preempted_at}",
                                          {"what": "concurrent"}, 1))
                return
    c = total.extra.setdefault("counters", {})
    c["concurrent_schedules"] = c.get("concurrent_schedules", 0) + n


def corpus_batches() -> list[bytes]:
    d = CORPUS_DIR / ID
    return [p.read_bytes() for p in sorted(d.glob("*.bin"))] if d.exists() else []


def _worker(task):
    seed, n, subsecond = task
    rep = Report(prop=ID, level="fault_enumeration", rule=RULE)
    rep.extra["counters"] = {"batches": 0, "identity_reads": 0, "fault_reads": 0, "probe_batches": 0}
    c = rep.extra["counters"]

    @hypothesis.seed(seed)
    @settings(max_examples=n, database=None, deadline=None, phases=[Phase.generate], suppress_health_check=list(HealthCheck))
    @given(wire_batches(subsecond))
    def test(wb):
        data = encode_batch(wb)
        if wb.records and not subsecond and (len(data) + len(wb.records)) % 12 == 0:
            # 1 batch in 12 is stretched so that the checksummed region (attributes .. end) is an exact multiple of a common
            # block size: chunked checksum / read loops are most fragile there
            import dataclasses as _dc

            target = (4096, 65536, 131072)[len(wb.records) % 3]
            for _ in range(5):
                region = len(data) - 21
                if region == target:
                    break
                last = wb.records[-1]
                cur = last.value or b""
                if region > target:
                    if len(cur) < region - target:
                        break
                    cur = cur[: len(cur) - (region - target)]
                else:
                    cur = cur + b"\x5a" * (target - region)
                wb = _dc.replace(wb, records=wb.records[:-1] + (_dc.replace(last, value=cur),))
                data = encode_batch(wb)
            if len(data) - 21 == target:
                c["aligned_batches"] = c.get("aligned_batches", 0) + 1
        run_batch(rep, c, wb, data, subsecond, with_faults=not subsecond or c["probe_batches"] < 3)

    test()
    return rep


def run_batch(rep, c, wb, data, probe: bool, with_faults: bool):
    h = case_hash(data)
    c["batches"] += 1
    if probe:
        c["probe_batches"] += 1
    c["identity_reads"] += 1
    rep.evaluations += 1
    fails, known = check_identity(wb, data)
    if known:
        if probe:
            rep.known_hits[FINDING_ID] = (
                "read_batch truncates record timestamps with a non-zero millisecond part to whole seconds "
                "(pinned by tests/records/test_readers.py); e.g. batch " + data.hex()[:80] + ".."
            )
        else:
            fails.append(("record:timestamp", "truncated timestamp outside the known-finding region"))
    for sig, msg in fails:
        rep.add_failure(Failure(sig, msg, {"batch": data.hex(), "what": "identity"}, len(data)))
    if with_faults:
        n, ffails = check_faults(data)
        c["fault_reads"] += n
        rep.evaluations += n
        for label, _bad in faults(data):
            rep.nontrivial.add(case_hash((h, label)))
        for sig, msg in ffails:
            rep.add_failure(Failure(sig, msg, {"batch": data.hex(), "what": "faults"}, len(data)))
    if len(rep.samples) < 2:
        rep.samples.append({"batch_hex": data.hex(), "records": len(wb.records), "faults_enumerated": with_faults})


def run(ctx: Ctx) -> Report:
    total = Report(prop=ID, level="fault_enumeration", rule=RULE)
    n_main = 1600 if ctx.quick else 20000
    n_probe = 160 if ctx.quick else 1600
    shards = 16
    tasks = [(ctx.subseed("main", i), n_main // shards, False) for i in range(shards)]
    tasks += [(ctx.subseed("probe", i), n_probe // shards, True) for i in range(shards)]
    for rep in pool_map(_worker, tasks):
        total.merge(rep)
    # the committed corpus: real-broker batches (all have sub-second timestamps -> probe region for identity)
    crep = Report(prop=ID, level="fault_enumeration", rule=RULE)
    crep.extra["counters"] = {"batches": 0, "identity_reads": 0, "fault_reads": 0, "probe_batches": 0, "corpus_batches": 0}
    for data in corpus_batches():
        wb, used = decode_batch(data)
        sub = any((wb.base_timestamp + r.timestamp_delta) % 1000 for r in wb.records)
        crep.extra["counters"]["corpus_batches"] += 1
        run_batch(crep, crep.extra["counters"], wb, data, probe=sub, with_faults=True)
    total.merge(crep)
    for rep in pool_map(_concurrency_worker, [(i, 16) for i in range(16)]):
        total.merge(rep)
    open_ids = open_findings(ID)
    for fid in list(total.known_hits):
        if fid not in open_ids:
            # the defect reproduces but is not listed as open: that is a violation, not a known finding
            total.add_failure(Failure("record:timestamp-subsecond-truncated", total.known_hits.pop(fid), {"what": "probe"}))
    total.extra["excluded_region"] = {
        "what": "record timestamps with (base_timestamp + delta) mod 1000 != 0 are excluded from the main identity search",
        "probed_batches": total.extra["counters"].get("probe_batches", 0),
    }
    total.assumptions = [
        "trusted base: kv/refbatch.py (validated against the real-broker batches)",
        "a damaged batch that happens to keep a valid CRC-32C cannot occur for single-bit flips (CRC detects all of them)",
    ]
    return total


def replay(case):
    if case.get("what") == "concurrent":
        rep = Report(prop=ID, level="fault_enumeration", rule=RULE)
        concurrency_stage(rep)
        return [(f.signature, f.message) for f in rep.failures.values()]
    data = bytes.fromhex(case["batch"])
    wb, _ = decode_batch(data)
    if case.get("what") == "faults":
        return check_faults(data)[1]
    fails, known = check_identity(wb, data)
    if known and FINDING_ID not in open_findings(ID):
        fails.append(("record:timestamp-subsecond-truncated", "sub-second record timestamp truncated to whole seconds"))
    return fails
