"""C06 -- every strict prefix of an encoding raises BufferUnderflow."""

from __future__ import annotations

from .. import kioapi as K
from ..engine import Ctx, Report, case_hash
from ..refcodec import OffsetMap, from_entity, ref_encode, to_entity
from ..streams import ReadBudgetExceeded, ReadOnlySource, StreamProtocolViolation
from ..strategies import MEDIUM
from ..treeprop import TreeSpec, note, run_tree_property

ID = "C06"
MAX_LEN = 4096
_seen: set = set()


def _reset():
    _seen.clear()


def cut_outcome(cd, b: bytes, k: int):
    """-> None if BufferUnderflow was raised, else (signature, message)."""
    src = ReadOnlySource(b[:k], max_reads=2 * len(b) + 8)
    try:
        v = K.entity_reader(cd.cls)(src)
    except K.BufferUnderflow:
        return None
    except ReadBudgetExceeded as e:
        return ("read-budget-exceeded", f"{cd.path}: prefix {k}/{len(b)} of {b.hex()}: {e}")
    except StreamProtocolViolation as e:
        return (f"stream-protocol:{str(e).split('(')[0].split(' ')[0]}", f"{cd.path}: prefix {k}/{len(b)}: {e}")
    except Exception as e:
        return (f"other-error:{K.exc_signature(e)}", f"{cd.path}: prefix {k}/{len(b)} of {b.hex()} raised {e!r}")
    return ("returned-value", f"{cd.path}: prefix {k}/{len(b)} of {b.hex()} decoded to {v!r}")


def check(cd, tree, extra):
    x = to_entity(cd, tree)
    try:
        b = K.encode(cd.cls, x)
    except Exception:
        note("unencodable")
        return None  # C01/C02 territory
    if len(b) > MAX_LEN:
        note("skipped_too_long")
        return None
    om = OffsetMap()
    try:
        if ref_encode(cd, from_entity(cd, x), om) != b:
            om = None
    except Exception:
        om = None
    bounds = om.boundaries() if om else set()
    h = case_hash((cd.path, b))
    new = h not in _seen
    _seen.add(h)
    out = []
    inside = 0
    for k in range(len(b)):
        res = cut_outcome(cd, b, k)
        if k not in bounds:
            inside += 1
        if res is not None:
            where = "inside-field" if k not in bounds else "field-boundary"
            role = om.locate(k)[1] if om else "?"
            out.append((f"{res[0]}:{where}:{role}", res[1]))
    note("cuts", len(b))
    if new:
        note("distinct_inside_cuts", inside)
        note("distinct_instances")
    return out


def nontrivial(cd, tree, labels, extra):
    return True


def sample_of(cd, tree, extra):
    x = to_entity(cd, tree)
    try:
        b = K.encode(cd.cls, x)
    except Exception:
        return {"class": cd.path, "unencodable": True}
    return {"class": cd.path, "encoding": b.hex()[:300], "cuts": f"0..{len(b) - 1} (all)"}


SPEC = TreeSpec(
    prop=ID,
    level="fault_enumeration",
    rule=(
        "one Hypothesis run per entity class generating canonical instances (strings up to 200 bytes, encodings "
        "capped at 4096 bytes); for each instance EVERY cut position k in 0..len-1 is executed (exhaustive per "
        "instance) on a read-only source that offers only read(n>=0) and counts calls; oracle: exactly "
        "kio.serial.errors.BufferUnderflow; a returned value, any other exception, any other stream access, or "
        "more than 2*len+8 read calls is a violation. evaluations = cuts executed. Non-trivial = cut strictly "
        "inside a field (not on a field boundary of the reference offset map), counted once per distinct "
        "(class, encoding, cut)."
    ),
    profile=MEDIUM,
    check=check,
    nontrivial=nontrivial,
    sample_of=sample_of,
    reset=_reset,
    quick_examples=25,
    thorough_examples=60,
    assumptions=("hang detection is by read-call count, not by wall clock",),
)


def run(ctx: Ctx) -> Report:
    rep = run_tree_property(ctx, __name__, SPEC)
    c = rep.extra.get("counters", {})
    rep.extra["instances"] = rep.evaluations
    skipped = int(c.get("unencodable", 0)) + int(c.get("skipped_too_long", 0))
    if skipped > 0.05 * max(rep.evaluations, 1) and not rep.failures:
        from ..engine import HarnessError

        raise HarnessError(f"generator health: {skipped} of {rep.evaluations} instances could not be used "
                           f"(unencodable={c.get('unencodable', 0)}, too long={c.get('skipped_too_long', 0)}): inconclusive")
    rep.evaluations = int(c.get("cuts", 0))
    rep.nontrivial_count_override = int(c.get("distinct_inside_cuts", 0))
    return rep


def replay(case):
    from ..treeprop import replay_tree_case

    return replay_tree_case(SPEC, case)
