"""C06 -- every strict prefix of an encoding raises BufferUnderflow."""

from __future__ import annotations

from .. import kioapi as K
from ..engine import Ctx, Report, case_hash
from ..refcodec import OffsetMap, from_entity, ref_encode, to_entity
from ..streams import ReadBudgetExceeded, ReadOnlySource, StreamProtocolViolation
from ..strategies import MEDIUM
from ..treeprop import TreeSpec, note, run_tree_property

ID = "C06"
MAX_LEN = 4096
_seen: set = set()


def _reset():
    _seen.clear()


def cut_outcome(cd, b: bytes, k: int):
    """-> None if BufferUnderflow was raised, else (signature, message)."""
    src = ReadOnlySource(b[:k], max_reads=2 * len(b) + 8)
    try:
        v = K.entity_reader(cd.cls)(src)
    except K.BufferUnderflow:
        return None
    except ReadBudgetExceeded as e:
        return ("read-budget-exceeded", f"{cd.path}: prefix {k}/{len(b)} of {b.hex()}: {e}")
    except StreamProtocolViolation as e:
        return (f"stream-protocol:{str(e).split('(')[0].split(' ')[0]}", f"{cd.path}: prefix {k}/{len(b)}: {e}")
    except Exception as e:
        return (f"other-error:{K.exc_signature(e)}", f"{cd.path}: prefix {k}/{len(b)} of {b.hex()} raised {e!r}")
    return ("returned-value", f"{cd.path}: prefix {k}/{len(b)} of {b.hex()} decoded to {v!r}")


def check(cd, tree, extra):
    x = to_entity(cd, tree)
    try:
        b = K.encode(cd.cls, x)
    except Exception:
        note("unencodable")
        return None  # C01/C02 territory
    if len(b) > MAX_LEN:
        note("skipped_too_long")
        return None
    om = OffsetMap()
    try:
        if ref_encode(cd, from_entity(cd, x), om) != b:
            om = None
    except Exception:
        om = None
    bounds = om.boundaries() if om else set()
    h = case_hash((cd.path, b))
    new = h not in _seen
    _seen.add(h)
    out = []
    inside = 0
    for k in range(len(b)):
        res = cut_outcome(cd, b, k)
        if k not in bounds:
            inside += 1
        if res is not None:
            where = "inside-field" if k not in bounds else "field-boundary"
            role = om.locate(k)[1] if om else "?"
            out.append((f"{res[0]}:{where}:{role}", res[1]))
    note("cuts", len(b))
    if new:
        note("distinct_inside_cuts", inside)
        note("distinct_instances")
    return out


def nontrivial(cd, tree, labels, extra):
    return True


def sample_of(cd, tree, extra):
    x = to_entity(cd, tree)
    try:
        b = K.encode(cd.cls, x)
    except Exception:
        return {"class": cd.path, "unencodable": True}
    return {"class": cd.path, "encoding": b.hex()[:300], "cuts": f"0..{len(b) - 1} (all)"}


SPEC = TreeSpec(
    prop=ID,
    level="fault_enumeration",
    rule=(
        "one Hypothesis run per entity class generating canonical instances (strings up to 200 bytes, encodings "
        "capped at 4096 bytes); for each instance EVERY cut position k in 0..len-1 is executed (exhaustive per "
        "instance) on a read-only source that offers only read(n>=0) and counts calls; oracle: exactly "
        "kio.serial.errors.BufferUnderflow; a returned value, any other exception, any other stream access, or "
        "more than 2*len+8 read calls is a violation. evaluations = cuts executed. Non-trivial = cut strictly "
        "inside a field (not on a field boundary of the reference offset map), counted once per distinct "
        "(class, encoding, cut). Additionally 16 (thorough: 200) classes with a bytes/records field, legacy versions first, "
        "are given a 68 KiB, a 1 MiB + 4 KiB and a 1.5 MiB payload and cut at ~240 selected positions each (first and last 48 "
        "bytes, 64 evenly spaced, every multiple of 64 KiB and 1 MiB +-1 from the start of the encoding and of the payload); the same classes also get a blob made of three real record batches back to back, cut at EVERY position."
    ),
    profile=MEDIUM,
    check=check,
    nontrivial=nontrivial,
    sample_of=sample_of,
    reset=_reset,
    quick_examples=25,
    thorough_examples=60,
    assumptions=("hang detection is by read-call count, not by wall clock",),
)


# --------------------------------------------------------------------------- large payloads, selected cuts

BIG_SIZES = (70000, (1 << 20) + 4096, 3 << 19)  # 68 KiB, 1 MiB + 4 KiB, 1.5 MiB


def big_payload_classes(limit: int) -> list:
    """Classes with a bytes/records field at depth <= 2: legacy ones first (there the blob can be the last thing read),
    one per (api, entity type) - the lowest and the highest version."""
    from .. import describe as D

    def blob_path(cd, depth=0):
        for f in cd.fields:
            if f.kind in ("bytes", "records") and not f.array and f.tag is None:
                return (f.name,)
            if f.kind == "struct" and depth < 2 and f.tag is None:
                sub = blob_path(f.struct, depth + 1)
                if sub:
                    return (f.name,) + sub
        return None

    best: dict = {}
    for api, version, etype, modname in D.walk_version_modules():
        for cls in D.module_classes(modname):
            if cls.__type__.name != etype:
                continue
            cd = D.describe(cls)
            bp = blob_path(cd)
            if bp:
                lo, hi = best.get((api, etype), (None, None))
                best[(api, etype)] = ((version, cd, bp) if lo is None or version < lo[0] else lo,
                                      (version, cd, bp) if hi is None or version > hi[0] else hi)
    out = []
    for key in sorted(best):
        for _v, cd, bp in best[key]:
            if (cd, bp) not in out:
                out.append((cd, bp))
    out.sort(key=lambda t: (t[0].flexible, t[0].path))
    return out[:limit]


def big_tree(cd, path: tuple, size: int) -> dict:
    from ..refcodec import zero_tree

    tree = zero_tree(cd)
    node, c = tree, cd
    for i, name in enumerate(path):
        f = next(x for x in c.fields if x.name == name)
        if i == len(path) - 1:
            node[name] = bytes((j * 131 + 7) % 251 for j in range(997)) * (size // 997 + 1)
            node[name] = node[name][:size]
        else:
            if f.array:
                from ..refcodec import zero_tree as _z

                node[name] = [_z(f.struct)]
                node, c = node[name][0], f.struct
            else:
                if node[name] is None:
                    from ..refcodec import zero_tree as _z

                    node[name] = _z(f.struct)
                node, c = node[name], f.struct
    return tree


def big_cuts(n: int, size: int) -> list[int]:
    start = n - size  # the blob is (close to) the end of these encodings; exactness does not matter for a cut position
    cuts = set(range(0, min(n, 48))) | set(range(max(0, n - 48), n))
    cuts |= {n * k // 64 for k in range(64)}
    for base in (start, 0):
        for m in range(1, size // 65536 + 2):
            for d in (-1, 0, 1):
                for unit in (65536, 1 << 20):
                    cuts.add(base + m * unit + d)
    return sorted(c for c in cuts if 0 <= c < n)


def _real_batches() -> bytes:
    """Three well-formed record batches back to back (the real-broker fixtures kept under corpus/C18)."""
    from ..engine import CORPUS_DIR

    parts = [p.read_bytes() for p in sorted((CORPUS_DIR / "C18").glob("*.bin"))][:3]
    return b"".join(parts)


def _big_worker(task):
    path, blob, size = task
    from .. import describe as D

    cd = D.describe(D.resolve(path))
    rep = Report(prop=ID, level=SPEC.level, rule=SPEC.rule)
    if size == 0:
        # a record set made of real batches: every cut (a reader that understands batch framing must still report a cut)
        payload = _real_batches()
        tree = big_tree(cd, tuple(blob), 1)
        node = tree
        for name in blob[:-1]:
            node = node[name][0] if isinstance(node[name], list) else node[name]
        node[blob[-1]] = payload
        size = len(payload)
        all_cuts = True
    else:
        tree = big_tree(cd, tuple(blob), size)
        all_cuts = False
    try:
        b = ref_encode(cd, tree)
    except Exception:
        return rep
    c = {"big_cuts": 0, "big_inputs": 1}
    for k in (range(len(b)) if all_cuts else big_cuts(len(b), size)):
        src = ReadOnlySource(b[:k], max_reads=4096)
        c["big_cuts"] += 1
        try:
            v = K.entity_reader(cd.cls)(src)
        except K.BufferUnderflow:
            continue
        except Exception as e:
            sig, msg = f"big:other-error:{K.exc_signature(e)}", f"{cd.path} with a {size}-byte {'.'.join(blob)}: prefix {k}/{len(b)} raised {e!r}"
        else:
            sig, msg = "big:returned-value", f"{cd.path} with a {size}-byte {'.'.join(blob)}: prefix {k}/{len(b)} decoded to an entity ({repr(v)[:120]}..)"
        from ..engine import Failure

        rep.add_failure(Failure(sig, msg, {"kind": "big", "class": path, "blob": list(blob), "size": size, "cut": k}, 1))
        break
    rep.extra["counters"] = c
    return rep


HEADER_PATHS = tuple(f"kio.schema.request_header.v{v}.header:RequestHeader" for v in (0, 1, 2))


def header_cases(path: str):
    """Request headers as real clients send them: request_api_key over EVERY API key of the package (a randomly drawn int16
    almost never names one), a few versions and client ids.  -> list of (kwargs dict)."""
    from kio.schema.index import api_key_map

    has_client = not path.startswith("kio.schema.request_header.v0.")
    out = []
    for key in sorted(api_key_map):
        for ver in (0, 1, 3, 7):
            for cid in ((None, "", "c", "client-\u00e9") if has_client else (None,)):
                kw = {"request_api_key": key, "request_api_version": ver, "correlation_id": 0x01020304}
                if has_client:
                    kw["client_id"] = cid
                out.append(kw)
    return out


def header_stage(only=None):
    """-> (failures, cuts).  Every cut of every header of header_cases()."""
    from .. import describe as D
    from ..engine import Failure

    fails, cuts = [], 0
    for path in HEADER_PATHS:
        cd = D.describe(D.resolve(path))
        for kw in header_cases(path):
            if only is not None and (path, kw) != only:
                continue
            b = K.encode(cd.cls, cd.cls(**kw))
            for k in range(len(b)):
                cuts += 1
                res = cut_outcome(cd, b, k)
                if res is not None:
                    fails.append(Failure(f"header:{res[0]}", res[1], {"kind": "header", "class": path, "kwargs": kw}, len(b)))
                    break
    return fails, cuts


def run(ctx: Ctx) -> Report:
    rep = run_tree_property(ctx, __name__, SPEC)
    from ..engine import pool_map

    tasks = [(cd.path, list(bp), size) for cd, bp in big_payload_classes(16 if ctx.quick else 200) for size in BIG_SIZES + (0,)]
    for sub in pool_map(_big_worker, tasks):
        for f in sub.failures.values():
            rep.add_failure(f)
        for k, v in sub.extra.get("counters", {}).items():
            rep.extra.setdefault("counters", {})[k] = rep.extra.setdefault("counters", {}).get(k, 0) + v
    hf, hcuts = header_stage()
    for f in hf:
        rep.add_failure(f)
    rep.extra.setdefault("counters", {})["header_cuts"] = hcuts
    c = rep.extra.get("counters", {})
    rep.extra["instances"] = rep.evaluations
    skipped = int(c.get("unencodable", 0)) + int(c.get("skipped_too_long", 0))
    if skipped > 0.05 * max(rep.evaluations, 1) and not rep.failures:
        from ..engine import HarnessError

        raise HarnessError(f"generator health: {skipped} of {rep.evaluations} instances could not be used "
                           f"(unencodable={c.get('unencodable', 0)}, too long={c.get('skipped_too_long', 0)}): inconclusive")
    rep.evaluations = int(c.get("cuts", 0)) + int(c.get("header_cuts", 0))
    rep.nontrivial_count_override = int(c.get("distinct_inside_cuts", 0))
    return rep


def replay(case):
    if case.get("kind") == "header":
        return [(f.signature, f.message) for f in header_stage((case["class"], case["kwargs"]))[0]]
    if case.get("kind") == "big":
        sub = _big_worker((case["class"], case["blob"], case["size"]))
        return [(f.signature, f.message) for f in sub.failures.values()]
    from ..treeprop import replay_tree_case

    return replay_tree_case(SPEC, case)
