"""C01 -- encode then decode is the identity; exact consumption even with trailing bytes."""

from __future__ import annotations

import datetime
import io

from hypothesis import strategies as st

from .. import kioapi as K
from ..engine import Ctx, Report
from ..refcodec import RefEncodeError, from_entity, ref_encode, to_entity
from ..strategies import Profile
from ..treeprop import TreeSpec, note, run_tree_property

ID = "C01"


def _extra(cd):
    tail = st.one_of(
        st.just(b""),
        st.binary(min_size=1, max_size=1),
        st.binary(min_size=16, max_size=16),
        st.just("self"),
        st.sampled_from([b"\x00", b"\xff", b"\x80\x80\x80\x80\x80\x80", b"\x01\x00\x00"]),
    )
    tz = st.sampled_from([0, 0, 60, -300, 330, 765, -720, "Europe/Paris", "Europe/Paris", "America/New_York", "America/St_Johns", "Australia/Lord_Howe", "Asia/Kathmandu",
                           # UTC offsets that are not whole minutes (fixed, and Liberia before 1972: -0:44:30)
                           ("s", 2670), ("s", -1), "Africa/Monrovia"])
    return st.tuples(tail, tz)


def _rezone(x, minutes: int):
    if not minutes:
        return x
    if isinstance(minutes, str):  # a named zone with DST rules / an odd offset, when the tz database is present
        try:
            import zoneinfo

            tz = zoneinfo.ZoneInfo(minutes)
        except Exception:
            return x
    elif isinstance(minutes, (tuple, list)):
        tz = datetime.timezone(datetime.timedelta(seconds=minutes[1]))
    else:
        tz = datetime.timezone(datetime.timedelta(minutes=minutes))

    def fn(dt):
        try:
            return dt.astimezone(tz)
        except OverflowError:
            return dt

    return K.map_datetimes(x, fn)


PROFILE = Profile("python_canonical+oversize", oversize_legacy=True, long_arrays=True, huge_bytes=True)


def check(cd, tree, extra):
    tail, tzmin = extra
    x = to_entity(cd, tree)
    x_in = _rezone(x, tzmin)
    comp = K.dst_companion(x)
    if comp is not None:
        # a timestamp near a DST transition: hand it over in that zone, right after encoding its mirror image (the other
        # fold twin / the other side of the offset change on the same local day) with the same tzinfo object
        _zone, x_in, mirrored = comp
        note("dst_companion_cases")
        try:
            K.encode(cd.cls, mirrored)
        except Exception:
            pass
    try:
        ref_encode(cd, from_entity(cd, x))
        oversize = False
    except RefEncodeError:
        oversize = True  # a legacy (int16-prefixed) string longer than 32767 bytes: the format cannot express it
    if oversize:
        note("oversize_legacy_cases")
        try:
            b = K.encode(cd.cls, x_in)
        except K.OutOfBoundValue:
            return None
        except Exception as e:
            return (f"oversize-legacy-wrong-error:{K.exc_signature(e)}", f"{cd.path}: a 32768-byte legacy string raised {e!r}, documented is OutOfBoundValue")
        return ("oversize-legacy-accepted", f"{cd.path}: a 32768-byte legacy string was encoded ({len(b)} bytes) instead of raising OutOfBoundValue")
    try:
        b = K.encode(cd.cls, x_in)
    except Exception as e:
        return (f"encode-raised:{K.exc_signature(e)}", f"{cd.path}: encoding {x_in!r} raised {e!r}")
    tail_b = b if tail == "self" else tail
    if len(b) % 6 == 3:
        note("preceded_by_failed_decodes", K.failed_decode_prelude(cd))  # earlier messages of this class were cut short
    src = io.BytesIO(b + tail_b)
    try:
        y = K.entity_reader(cd.cls)(src)
    except Exception as e:
        return (f"decode-raised:{K.exc_signature(e)}", f"{cd.path}: decoding {b.hex()} (+tail) raised {e!r}")
    out = []
    d = K.diff_path(x, y)
    if d is None and x_in != y and x == y:
        # PEP 495: an aware datetime inside a repeated (fold-ambiguous) hour never compares equal to a datetime of ANOTHER
        # zone, whatever the instants.  The decoder returns UTC datetimes, so for such values `==` cannot hold by
        # construction of Python's datetime; they are compared by instant (x is the same instance expressed in UTC).
        note("pep495_interzone_inequality_compared_by_instant")
    elif d is not None or x_in != y:
        out.append((f"value-mismatch:{d}", f"{cd.path}: wrote {x_in!r}\n read {y!r}\n bytes {b.hex()}"))
    if src.tell() != len(b):
        out.append(
            (f"consumed:{'more' if src.tell() > len(b) else 'fewer'}",
             f"{cd.path}: encoder produced {len(b)} bytes, decoder consumed {src.tell()} (tail {len(tail_b)} bytes)")
        )
    return out


_NT = {"array_null", "array_empty", "array_many", "tagged_nondefault_nested", "string_ge126",
       "multibyte_text", "int_limit"}


def nontrivial(cd, tree, labels, extra):
    return bool(labels & _NT) and extra[0] != b""


def sample_of(cd, tree, extra):
    x = to_entity(cd, tree)
    return {"class": cd.path, "value": repr(x)[:600], "tail": repr(extra[0])[:60], "tz_minutes": extra[1]}


SPEC = TreeSpec(
    prop=ID,
    level="exploration",
    rule=(
        "one Hypothesis run per entity class (all 1629 in thorough; shape set-cover + headers + "
        "seeded sample in quick); each case = canonical instance built from a generated wire tree "
        "(boundary-biased ints, 0/1/126..32767-byte strings, multi-byte UTF-8, null/empty/one/many "
        "arrays plus, in 1 of 25 array draws, 63..1000-item arrays (16382..16384 for scalars) cycling 1-3 units, tagged default/non-default) re-expressed in a drawn UTC offset, encoded, followed by "
        "a drawn tail (none/1 byte/16 bytes/second copy) and decoded; oracle: decoded == original and "
        "tell() == len(encoding); a legacy string of 32768 bytes must make the encoder raise OutOfBoundValue. Non-trivial = instance has a null/empty/multi-item array, nested "
        "non-default tagged field, string >=126 bytes, multi-byte text or an integer at a limit, AND a "
        "non-empty tail; distinct by hash of (class, tree, tail)."
    ),
    profile=PROFILE,
    check=check,
    size_sweep=True,
    sweep_extra=(b"\x01\x00\x00", 0),
    nontrivial=nontrivial,
    extra=_extra,
    sample_of=sample_of,
    assumptions=(
        "round trip is kio-vs-kio; independence from kio's own reading of the format comes from C02/C03",
        "instances are built by kv.refcodec.to_entity from generated wire trees (well-typed, whole-ms)",
        "aware datetimes inside a repeated DST hour compare unequal to every datetime of another zone (PEP 495); for those the decoded UTC value is compared by instant",
    ),
    floors={"array_empty": 0.02, "multibyte_text": 0.02, "nontrivial": 0.05},
)


def run(ctx: Ctx) -> Report:
    return run_tree_property(ctx, __name__, SPEC)


def replay(case):
    from ..treeprop import replay_tree_case

    return replay_tree_case(SPEC, case)
