"""C09 -- the dynamic index resolves every known entity and nothing else."""

from __future__ import annotations

import importlib

import hypothesis
from hypothesis import HealthCheck, Phase, given, settings
from hypothesis import strategies as st

from .. import describe as D
from ..engine import Ctx, Failure, Report, case_hash
from ..pins import pins

ID = "C09"
RULE = (
    "valid set: every (api dir, version, type) module found by an on-disk walk of src/kio/schema (666) and every "
    "pinned api key (88), exhaustively: load_entity_module / load_entity_schema / load_payload_module / "
    "load_request_schema / load_response_schema / load_response_from_request / load_request_from_response must return the module at that path and the unique non-nested class "
    "whose __type__/__version__ match; disk set == index set; api_key_map injective and equal to the pins. Invalid "
    "set: every near-miss (version min-1/max+1, key -1/max+1 and gaps, type not offered by that API, "
    "EntityType.nested) plus Hypothesis-drawn arbitrary ints/strings for key, name, version: must raise "
    "UnknownAPIKey (bad key) or UnknownEntity (else) and nothing else. Non-trivial = near-miss or arbitrary "
    "invalid input; distinct by argument tuple. Lookup sequences: for every API B, a successful lookup of a neighbouring API A at version n, a failing lookup of B at a version it lacks, then B at n - must be B's class. The exhaustive valid sweep and the near-misses are repeated in a child "
    "interpreter started with -O (assert statements stripped - a common production setting): same expectations."
)


def _et():
    from kio.static.constants import EntityType

    return EntityType


def _enc_args(args):
    return [{"$et": a.name} if hasattr(a, "name") and not isinstance(a, (int, str)) else a for a in args]


def _dec_args(args):
    ET = _et()
    return tuple(ET[a["$et"]] if isinstance(a, dict) else a for a in args)


def expect_unknown(fn, args, want_names: tuple[str, ...]):
    """-> None if fn(*args) raised one of the wanted kio.index errors, else (sig, msg)."""
    import kio.index as I

    want = tuple(getattr(I, n) for n in want_names)
    try:
        res = fn(*args)
    except want:
        return None
    except Exception as e:
        return (f"wrong-error:{fn.__name__}:{type(e).__name__}", f"{fn.__name__}{args!r} raised {e!r}, expected {want_names}")
    return (f"returned-for-invalid:{fn.__name__}", f"{fn.__name__}{args!r} returned {res!r}, expected {want_names}")


def check_valid(api: str, version: int, etype: str, modname: str) -> list:
    import kio.index as I

    ET = _et()
    out = []
    mod = importlib.import_module(modname)
    classes = [c for c in D.module_classes(modname) if c.__type__.name == etype and c.__version__ == version]
    if len(classes) != 1:
        return [("no-unique-class", f"{modname}: {len(classes)} non-nested classes match type/version")]
    cls = classes[0]
    et = ET[etype]
    calls = [("load_entity_module", (api, version, et), mod), ("load_entity_schema", (api, version, et), cls)]
    if etype in ("request", "response"):
        key = pins()["apis"][api][etype]["api_key"]
        calls.append(("load_payload_module", (key, version, et), mod))
        calls.append((f"load_{etype}_schema", (key, version), cls))
        # the counterpart lookups are load_* functions of kio.index too: from this class (found on disk) they must lead to
        # the unique top-level class of the sibling module on disk
        other = "response" if etype == "request" else "request"
        sibling = modname.rsplit(".", 1)[0] + "." + other
        try:
            sib = [c for c in D.module_classes(sibling) if c.__type__.name == other and c.__version__ == version]
        except ModuleNotFoundError:
            sib = []
        if len(sib) == 1:
            calls.append((f"load_{other}_from_{etype}", (cls,), sib[0]))
    for name, args, want in calls:
        try:
            got = getattr(I, name)(*args)
        except Exception as e:
            out.append((f"valid-raised:{name}:{type(e).__name__}", f"{name}{args!r} raised {e!r}"))
            continue
        if got is not want:
            out.append((f"valid-wrong-result:{name}", f"{name}{args!r} returned {got!r}, expected {want!r}"))
    return out


def near_misses() -> list[tuple[str, tuple, tuple]]:
    """-> list of (function name, args, wanted error names)."""
    ET = _et()
    apis = pins()["apis"]
    cases = []
    keys = sorted({d[t]["api_key"] for d in apis.values() for t in d if d[t]["api_key"] is not None})
    by_key = {}
    for api, d in apis.items():
        for t, p in d.items():
            if p["api_key"] is not None:
                by_key[p["api_key"]] = api
    all_types = [ET.request, ET.response, ET.header, ET.data, ET.nested]
    for api, d in apis.items():
        offered = set(d)
        for t, p in d.items():
            et = ET[t]
            for v in (p["min"] - 1, p["max"] + 1, -1, p["max"] + 1000):
                cases.append(("load_entity_module", (api, v, et), ("UnknownEntity",)))
                cases.append(("load_entity_schema", (api, v, et), ("UnknownEntity",)))
                if p["api_key"] is not None:
                    cases.append(("load_payload_module", (p["api_key"], v, et), ("UnknownEntity",)))
                    cases.append((f"load_{t}_schema", (p["api_key"], v), ("UnknownEntity",)))
            # aliases of VALID versions: the same low bits with a high bit set (truncating / packing lookups), and the
            # neighbours of powers of two.  Run after the valid sweep, i.e. with every real entry already looked up once.
            for v0 in {p["min"], p["max"]}:
                for alias in (v0 + 2**8, v0 + 2**15, v0 + 2**16, v0 + 2 * 2**16, v0 + 3 * 2**16, v0 + 2**31, v0 + 2**32, v0 + 2**63, v0 + 2**64,
                              v0 - 2**16, v0 - 2**32):
                    cases.append(("load_entity_schema", (api, alias, et), ("UnknownEntity",)))
                    if p["api_key"] is not None:
                        cases.append(("load_payload_module", (p["api_key"], alias, et), ("UnknownEntity",)))
                        cases.append((f"load_{t}_schema", (p["api_key"], alias), ("UnknownEntity",)))
                        # ... and of valid KEYS: key ^ 1 is usually another valid key, so (key ^ 1, alias) probes packed keys
                        cases.append((f"load_{t}_schema", (p["api_key"] ^ 1, alias), ("UnknownEntity", "UnknownAPIKey")))
        for et in all_types:
            if et.name not in offered:
                v = next(iter(d.values()))["min"]
                cases.append(("load_entity_module", (api, v, et), ("UnknownEntity",)))
                cases.append(("load_entity_schema", (api, v, et), ("UnknownEntity",)))
    bad_keys = [keys[0] - 1, keys[-1] + 1] + [k for k in range(keys[0], keys[-1] + 1) if k not in by_key]
    bad_keys += [k + off for k in (keys[0], 3, keys[-1]) for off in (2**8, 2**15, 2**16, 2**31, 2**32, -(2**16))]
    for k in bad_keys:
        cases.append(("load_payload_module", (k, 0, ET.request), ("UnknownAPIKey",)))
        cases.append(("load_request_schema", (k, 0), ("UnknownAPIKey",)))
        cases.append(("load_response_schema", (k, 0), ("UnknownAPIKey",)))
    # keys that merely LOOK like valid keys: digit strings of valid keys, fractional floats next to valid keys
    for k in (["3", " 3", "12\n", "\u0663", "0", "87", "1_2", "0x3", "+3"] + [3.5, -0.5, 0.999, 87.5]):
        cases.append(("load_payload_module", (k, 0, ET.request), ("UnknownAPIKey",)))
        cases.append(("load_request_schema", (k, 0), ("UnknownAPIKey",)))
        cases.append(("load_response_schema", (k, 0), ("UnknownAPIKey",)))
    for wrong in ("Metadata", "metadata ", "METADATA", "", "kio.schema.metadata", "metadata.v1", "index", "errors", "types"):
        cases.append(("load_entity_module", (wrong, 0, ET.request), ("UnknownEntity",)))
        cases.append(("load_entity_schema", (wrong, 0, ET.request), ("UnknownEntity",)))
    return cases


def run(ctx: Ctx) -> Report:
    import kio.index as I
    from kio.schema.index import api_key_map, schema_name_map

    ET = _et()
    rep = Report(prop=ID, level="exploration", rule=RULE)
    disk = D.walk_version_modules()
    disk_set = {(api, v, t) for api, v, t, _ in disk}
    # 1. valid set, exhaustive
    for api, v, t, modname in disk:
        rep.evaluations += 1
        for sig, msg in check_valid(api, v, t, modname):
            rep.add_failure(Failure(sig, msg, {"kind": "valid", "api": api, "version": v, "type": t, "module": modname}, len(msg)))
    # 2. disk set == index set, key map == pins, injective
    index_set = {(api, v, t.name) for api, vm in schema_name_map.items() for v, tm in vm.items() for t in tm}
    for miss in sorted(disk_set - index_set)[:5]:
        rep.add_failure(Failure("module-not-in-index", f"{miss} exists on disk but not in the index", {"kind": "sets"}))
    for extra in sorted(index_set - disk_set)[:5]:
        rep.add_failure(Failure("index-entry-without-module", f"{extra} is in the index but not on disk", {"kind": "sets"}))
    for (api, v, t) in sorted(index_set & disk_set):
        path = schema_name_map[api][v][ET[t]]
        if not path.startswith(f"kio.schema.{api}.v{v}.{t}:"):
            rep.add_failure(Failure("index-path-mismatch", f"index entry {(api, v, t)} points at {path}", {"kind": "sets"}))
    pinned_keys = {p["api_key"]: api for api, d in pins()["apis"].items() for t, p in d.items() if p["api_key"] is not None}
    if dict(api_key_map) != pinned_keys:
        diff = set(api_key_map.items()) ^ set(pinned_keys.items())
        rep.add_failure(Failure("api-key-map-vs-pins", f"api_key_map differs from the pins: {sorted(diff)[:6]}", {"kind": "sets"}))
    if len(set(api_key_map.values())) != len(api_key_map):
        rep.add_failure(Failure("api-key-map-not-injective", "two keys map to one API name", {"kind": "sets"}))
    if any(isinstance(k, bool) or not isinstance(k, int) for k in api_key_map):
        rep.add_failure(Failure("api-key-map-key-type", "non-int key", {"kind": "sets"}))
    rep.extra["index_entries"] = len(index_set)
    rep.extra["disk_modules"] = len(disk_set)
    rep.extra["api_keys"] = len(api_key_map)
    # 3. near misses
    nm = near_misses()
    for name, args, want in nm:
        rep.evaluations += 1
        rep.nontrivial.add(case_hash((name, repr(args))))
        res = expect_unknown(getattr(I, name), args, want)
        if res:
            rep.add_failure(Failure(res[0], res[1], {"kind": "invalid", "fn": name, "args": _enc_args(args)}, len(res[1])))
    rep.extra["near_misses"] = len(nm)
    rep.samples.extend([{"fn": n, "args": repr(a), "expected": w} for n, a, w in nm[:: max(1, len(nm) // 6)][:6]])
    # 3a. lookups are independent of the lookups made before: for every API B, after a SUCCESSFUL lookup of another API A at
    # version n and a correctly FAILING lookup of B (a version B does not have), B is looked up at n and at its own versions
    for sig, msg in lookup_sequences(disk):
        rep.add_failure(Failure(sig, msg, {"kind": "sequence"}, len(msg)))
    rep.evaluations += 4 * len({a for a, _v, _t, _m in disk})
    # 3b. the same exhaustive sweep and near-misses in an interpreter that strips assert statements (python -O)
    for sig, msg, case in optimized_child():
        rep.add_failure(Failure(sig, msg, case, len(msg)))
    rep.evaluations += len(disk) + len(nm)
    rep.extra["python_O_child_cases"] = len(disk) + len(nm)
    # 4. arbitrary inputs
    n_arb = 2000 if ctx.quick else 100000
    names = sorted(pins()["apis"])
    valid_keys = set(api_key_map)
    ints = st.one_of(st.integers(), st.integers(-5, 120), st.sampled_from([2**15, -(2**15) - 1, 2**31, 2**63, 10**30]))
    digit_text = st.integers(-3, 120).map(str)
    name_st = st.one_of(st.text(max_size=12), st.sampled_from(names), st.sampled_from(names).map(lambda s: s + "_"), st.integers(-3, 90))
    ver_st = st.one_of(ints, st.text(max_size=3))
    et_st = st.sampled_from(list(ET))
    arb = st.one_of(
        st.tuples(st.just("load_entity_module"), st.tuples(name_st, ver_st, et_st)),
        st.tuples(st.just("load_entity_schema"), st.tuples(name_st, ver_st, et_st)),
        st.tuples(st.just("load_payload_module"), st.tuples(st.one_of(ints, st.text(max_size=4), digit_text), ver_st, et_st)),
        st.tuples(st.just("load_request_schema"), st.tuples(st.one_of(ints, st.text(max_size=4), digit_text), ver_st)),
        st.tuples(st.just("load_response_schema"), st.tuples(st.one_of(ints, st.text(max_size=4), digit_text), ver_st)),
    )
    stats = {"arbitrary_valid": 0, "arbitrary_invalid": 0}

    def classify(name, args):
        """-> ('valid', None) or ('invalid', wanted errors)"""
        if name in ("load_entity_module", "load_entity_schema"):
            api, v, et = args
            ok = isinstance(api, str) and isinstance(v, int) and (api, v, et.name) in disk_set
            return ("valid", None) if ok else ("invalid", ("UnknownEntity",))
        key, v = args[0], args[1]
        if not (isinstance(key, int) and key in valid_keys):
            return "invalid", ("UnknownAPIKey",)
        t = args[2].name if len(args) == 3 else name.split("_")[1]
        api = api_key_map[key]
        ok = isinstance(v, int) and (api, v, t) in disk_set
        return ("valid", None) if ok else ("invalid", ("UnknownEntity",))

    @hypothesis.seed(ctx.subseed("arbitrary"))
    @settings(max_examples=n_arb, database=None, deadline=None, phases=[Phase.generate],
              suppress_health_check=list(HealthCheck))
    @given(arb)
    def test(case):
        name, args = case
        rep.evaluations += 1
        kind, want = classify(name, args)
        if kind == "valid":
            stats["arbitrary_valid"] += 1
            try:
                getattr(I, name)(*args)
            except Exception as e:
                rep.add_failure(Failure(f"valid-raised:{name}:{type(e).__name__}", f"{name}{args!r} raised {e!r}",
                                        {"kind": "invalid", "fn": name, "args": _enc_args(args)}))
            return
        stats["arbitrary_invalid"] += 1
        rep.nontrivial.add(case_hash((name, repr(args))))
        res = expect_unknown(getattr(I, name), args, want)
        if res:
            rep.add_failure(Failure(res[0], res[1], {"kind": "invalid", "fn": name, "args": _enc_args(args)}, len(res[1])))

    test()
    rep.extra.update(stats)
    rep.assumptions = ["entity_type arguments are EntityType members (the typed API); bool is not used as key/version"]
    return rep


def lookup_sequences(disk) -> list:
    import kio.index as I

    ET = _et()
    by_api: dict = {}
    for api, v, t, modname in disk:
        if t in ("request", "response"):
            by_api.setdefault(api, {}).setdefault(v, {})[t] = modname
    apis = sorted(by_api)
    out = []
    for i, b in enumerate(apis):
        a = apis[i - 1]
        vb = sorted(by_api[b])
        for n in sorted(set(by_api[a]) & set(vb))[-2:]:
            for t in ("request", "response"):
                if t not in by_api[a][n] or t not in by_api[b][n]:
                    continue
                try:
                    I.load_entity_schema(a, n, ET[t])  # success for A
                    for bad in (max(vb) + 1, min(vb) - 1):
                        try:
                            I.load_entity_schema(b, bad, ET[t])  # must fail for B
                            out.append(("sequence:returned-for-invalid", f"load_entity_schema({b!r}, {bad}, {t}) returned instead of raising"))
                        except I.UnknownEntity:
                            pass
                        got = I.load_entity_schema(b, n, ET[t])
                        mod = I.load_entity_module(b, n, ET[t])
                        if got.__module__ != by_api[b][n][t] or mod.__name__ != by_api[b][n][t]:
                            out.append(("sequence:wrong-class-after-failed-lookup",
                                        f"after load_entity_schema({a!r}, {n}) succeeded and load_entity_schema({b!r}, {bad}) failed, "
                                        f"load_entity_schema({b!r}, {n}, {t}) returned {got.__module__}.{got.__qualname__} / module {mod.__name__}, "
                                        f"expected {by_api[b][n][t]}"))
                except Exception as e:
                    out.append((f"sequence:raised:{type(e).__name__}", f"{a} v{n} then {b}: {e!r}"))
                if len(out) >= 6:
                    return out
    return out


def child_cases() -> list:
    """valid sweep + near misses -> [(signature, message, replay case)] (run in the -O child and by its replay)"""
    import kio.index as I

    out = []
    for api, v, t, modname in D.walk_version_modules():
        for sig, msg in check_valid(api, v, t, modname):
            out.append((f"python-O:{sig}", "[python -O] " + msg, {"kind": "python-O"}))
    for name, args, want in near_misses():
        res = expect_unknown(getattr(I, name), args, want)
        if res:
            out.append((f"python-O:{res[0]}", "[python -O] " + res[1], {"kind": "python-O"}))
    return out


def optimized_child() -> list:
    import json
    import os
    import subprocess
    import sys
    import tempfile

    from ..engine import HarnessError

    with tempfile.TemporaryDirectory(prefix="kv-c09-") as d:
        out = os.path.join(d, "out.json")
        code = ("import json,sys\nfrom kv.props import c09\nassert not __debug__ or sys.exit(3)\n"
                "json.dump(c09.child_cases(), open(sys.argv[1], 'w'))")
        r = subprocess.run([sys.executable, "-O", "-c", code, out], capture_output=True, text=True, timeout=900,
                           cwd=os.path.dirname(os.path.dirname(os.path.dirname(os.path.abspath(__file__)))))
        if r.returncode != 0 or not os.path.exists(out):
            raise HarnessError(f"python -O child failed (exit {r.returncode}): {r.stderr[-800:]}")
        seen, res = set(), []
        for sig, msg, case in json.load(open(out)):
            if sig not in seen or len(res) < 40:
                seen.add(sig)
                res.append((sig, msg, case))
        return res


def replay(case):
    import kio.index as I

    if case.get("kind") == "sequence":
        return lookup_sequences(D.walk_version_modules())
    if case.get("kind") == "python-O":
        return [(s, m) for s, m, _ in optimized_child()]

    if case.get("kind") == "valid":
        return check_valid(case["api"], case["version"], case["type"], case["module"])
    if case.get("kind") == "invalid":
        args = _dec_args(case["args"])
        name = case["fn"]
        want = ("UnknownAPIKey", "UnknownEntity")
        res = expect_unknown(getattr(I, name), args, want)
        return [res] if res else []
    rep = run(Ctx(prop=ID, tier="quick", seed=1))
    return [(f.signature, f.message) for f in rep.failures.values()]
