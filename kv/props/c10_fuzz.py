"""Coverage-guided stage of C10 (thorough tier): 16 atheris/libFuzzer processes, classes partitioned over them."""

from __future__ import annotations

import json
import os
import shutil
import subprocess
import sys
import tempfile

from ..engine import NPROC, ROOT, Failure


def available() -> bool:
    try:
        sys.path.insert(0, str(ROOT / ".deps"))
        import atheris  # noqa: F401

        return True
    except Exception:
        return False
    finally:
        try:
            sys.path.remove(str(ROOT / ".deps"))
        except ValueError:
            pass


def run_campaign(ctx, rep, seconds: int | None = None) -> None:
    seconds = seconds or int(os.environ.get("KV_FUZZ_SECONDS", "60"))
    if not available():
        rep.extra["atheris"] = {"status": "atheris not importable (setup_cmd installs it from the wheelhouse); stage skipped"}
        return
    scratch = tempfile.mkdtemp(prefix="kv-c10-fuzz-", dir=os.environ.get("KV_SCRATCH", "/tmp"))
    procs = []
    try:
        env = dict(os.environ)
        env["PYTHONPATH"] = f"{ROOT}:{ROOT}/.deps"
        for i in range(NPROC):
            out = os.path.join(scratch, f"shard{i}")
            os.makedirs(out)
            log = open(os.path.join(out, "log"), "w")
            procs.append(subprocess.Popen(
                [sys.executable, "-m", "kv.fuzz_c10", str(i), str(NPROC), out,
                 f"-max_total_time={seconds}", f"-seed={ctx.subseed('atheris', i) % (2**31 - 1) + 1}",
                 "-max_len=512", "-timeout=30", "-rss_limit_mb=4096", "-print_final_stats=0", "-verbosity=0"],
                cwd=str(ROOT), env=env, stdout=log, stderr=subprocess.STDOUT))
        for p in procs:
            try:
                p.wait(timeout=seconds + 300)
            except subprocess.TimeoutExpired:
                p.kill()
        tot = {"execs": 0, "accepted": 0, "rejected": 0, "past_first_read": 0, "distinct_nontrivial": 0, "shards": 0}
        crashed = []
        samples = []
        for i in range(NPROC):
            out = os.path.join(scratch, f"shard{i}")
            try:
                doc = json.load(open(os.path.join(out, "stats.json")))
            except Exception:
                crashed.append(i)
                continue
            tot["shards"] += 1
            for k in ("execs", "accepted", "rejected", "past_first_read", "distinct_nontrivial"):
                tot[k] += doc["stats"].get(k, 0)
            samples.extend(doc.get("samples", [])[:1])
            for sig, f in doc["findings"].items():
                rep.add_failure(Failure("fuzz:" + sig, f["message"], {"class": f["class"], "input": f["input"]}, len(f["input"])))
            # libFuzzer-level crashes/timeouts/ooms leave artifacts in cwd of the shard
            tail = open(os.path.join(out, "log")).read()[-2000:]
            if procs[i].returncode not in (0, None) and "stats" in doc and doc["stats"]["execs"] == 0:
                crashed.append(i)
            if "ERROR: libFuzzer" in tail or "== ERROR" in tail:
                rep.extra.setdefault("atheris_log_tails", []).append(tail[-600:])
        rep.extra["atheris"] = {"status": "ran", "seconds_per_shard": seconds, **tot, "shards_without_stats": crashed,
                                "samples": samples[:4]}
        rep.evaluations += tot["execs"]
        rep.extra["atheris_distinct_nontrivial"] = tot["distinct_nontrivial"]
        if rep.nontrivial_count_override is None:
            rep.nontrivial_count_override = len(rep.nontrivial) + tot["distinct_nontrivial"]
    finally:
        for p in procs:
            if p.poll() is None:
                p.kill()
        shutil.rmtree(scratch, ignore_errors=True)
