"""C17 -- new record batches are written in the Kafka v2 batch format."""

from __future__ import annotations

import datetime
import io
import json

import hypothesis
from hypothesis import HealthCheck, Phase, given, settings
from hypothesis import strategies as st

from .. import kioapi as K
from ..engine import Ctx, Failure, Report, case_hash, pool_map
from ..refbatch import BatchFormatError, decode_batch
from ..refcodec import EPOCH
from ..strategies import TS_MAX_MS, int_strategy

ID = "C17"
RULE = (
    "Hypothesis-generated NewRecordBatch values: 1-8 records; first offset anywhere in int64, other offsets = first + "
    "int32 delta in any order; whole-millisecond timestamps anywhere in [epoch, 9999-12-31] in any order, in several fixed UTC "
    "offsets and named DST zones (shared tzinfo objects; 1 batch in 12 lies in the repeated hour at the end of daylight saving time, first record fold=0, the others fold=1 with the same or an earlier wall-clock time); key/value null/empty/small/one >=16 KiB (1 batch in 8 stretched so that the checksummed section is exactly 4096 .. 196608 bytes); 0-3 headers (1 record in 40: 63-130) with null/empty/non-empty key and value; record and "
    "batch attributes, producer id/epoch, base sequence, partition leader epoch over their full ranges incl. limits. "
    "Oracle: kv.refbatch.decode_batch (independent strict v2 decoder with own varints and pure-Python CRC-32C) must "
    "parse the output completely (magic 2, batch_length == len-12, CRC over exactly bytes[21:], minimal varints, record "
    "length prefixes exact, no trailing bytes) and recover base offset = first record's, last offset delta = last-first, "
    "base timestamp = first record's ms, max timestamp = max ms, record count, every record's deltas/key/value/headers "
    "and all batch parameters. Concurrency: two threads write two different batches to their own buffers under a deterministic scheduler, one preemption swept over every executed kio source line; each output must equal the sequential one. One case in three is written after earlier writes failed part-way (a record with a str value "
    "or a str header value after 300+ good bytes; the same batch on sinks raising OSError at write call 1..9). Non-trivial = >=2 records with non-monotone offsets or timestamps, or a null "
    "key/value/header part; distinct by hash of the case."
)

_ZONES = [0, 0, 60, -300, 330, 765, "Europe/Berlin", "Europe/Berlin", "America/New_York", "Australia/Lord_Howe",
          # UTC offsets that are not whole minutes: fixed ones, and Liberia before 1972-01-07 (-0:44:30; the timestamps
          # generated near 1970 fall into that period)
          ("s", 2670), ("s", -2670), ("s", 1), ("s", -86399), "Africa/Monrovia"]
# (zone, UTC instant in ms at which its clocks go back, size of the step in ms)
_FALL_BACK = [("Europe/Berlin", 1635642000000, 3600000), ("America/New_York", 1636264800000, 3600000),
              ("Australia/Lord_Howe", 1617462000000, 1800000)]


def _blob():
    return st.one_of(
        st.none(), st.just(b""), st.binary(min_size=1, max_size=20),
        st.sampled_from([63, 64, 8191, 8192, 16384, 70000]).flatmap(
            lambda n: st.binary(min_size=1, max_size=3).map(lambda u: (u * (n // len(u) + 1))[:n])),
    )


def _small_blob():
    return st.one_of(st.none(), st.just(b""), st.binary(min_size=1, max_size=12))


@st.composite
def batch_cases(draw):
    n = draw(st.sampled_from([1, 1, 2, 2, 3, 4, 5, 8]))
    if draw(st.integers(0, 39)) == 0:
        n = draw(st.sampled_from([255, 256, 257, 300]))  # hundreds of records (record count beyond one byte / small-int range)
    first = draw(st.one_of(st.sampled_from([0, 1, 2**31, 2**62, 2**63 - 1 - 2**31, -(2**63) + 2**31]),
                           st.integers(-(2**63) + 2**31, 2**63 - 1 - 2**31)))
    deltas = [0] + [draw(st.one_of(st.sampled_from([0, 1, -1, 63, 64, -64, -65, 2**31 - 1, -(2**31), 8191, 8192]),
                                   st.integers(-(2**31), 2**31 - 1))) for _ in range(n - 1)]
    if n >= 3 and draw(st.integers(0, 7)) == 0:
        # "almost contiguous": the end points span exactly n - 1 (what a producer's batch looks like to a range check),
        # the inner offsets are a shuffle of the values in between
        inner = draw(st.permutations(list(range(1, n - 1))))
        deltas = [0] + list(inner) + [n - 1]
    # last - first must itself be an int32 (it is: deltas are int32)
    ts = [draw(st.one_of(st.sampled_from([0, 1, 999, 1000, 1503229838908, 1503229959532, 2**41 + 7, TS_MAX_MS, TS_MAX_MS - 1]),
                         st.integers(0, TS_MAX_MS))) for _ in range(n)]
    if n >= 2 and draw(st.booleans()):
        # near-identical timestamps: small deltas around the first
        ts = [ts[0]] + [min(max(ts[0] + draw(st.integers(-70000, 70000)), 0), TS_MAX_MS) for _ in range(n - 1)]
    fold_zone = None
    if n >= 2 and draw(st.integers(0, 11)) == 0:
        # the repeated hour at the end of daylight saving time: all records share ONE DST-observing tzinfo; the first lies
        # before the clocks go back (fold=0), the others after (fold=1), often with the SAME or an EARLIER wall-clock time
        fold_zone, t_back, shift = draw(st.sampled_from(_FALL_BACK))
        a = draw(st.integers(1, shift))
        ts = [t_back - a]
        for _ in range(n - 1):
            ts.append(t_back + draw(st.one_of(st.just(shift - a), st.integers(0, shift - 1))))
    records = []
    for i in range(n):
        nh = draw(st.sampled_from([0, 0, 1, 2, 3]))
        if draw(st.integers(0, 39)) == 0:
            nh = draw(st.sampled_from([63, 64, 65, 130]))  # a header count whose zig-zag varint needs two bytes
        records.append({
            "attributes": draw(int_strategy(-128, 127)),
            "ts_ms": ts[i],
            "tz": fold_zone or draw(st.sampled_from(_ZONES)),
            "offset": first + deltas[i],
            "key": draw(_blob() if i == 0 else _small_blob()),
            "value": draw(_blob() if i == 1 else _small_blob()),
            "headers": ([(draw(_small_blob()), draw(_small_blob())) for _ in range(nh)] if nh < 60 else
                        [(bytes([65 + j % 26]) * (j % 3), None if j % 5 == 0 else bytes([j % 256])) for j in range(nh)]),
        })
    return {
        "producer_id": draw(int_strategy(-(2**63), 2**63 - 1)),
        "producer_epoch": draw(int_strategy(-(2**15), 2**15 - 1)),
        "partition_leader_epoch": draw(int_strategy(-(2**31), 2**31 - 1)),
        "base_sequence": draw(int_strategy(-(2**31), 2**31 - 1)),
        "attributes": draw(int_strategy(-(2**15), 2**15 - 1)),
        "records": records,
        # one case in four is written after earlier writes FAILED part-way (see failed_write_prelude)
        "prelude": draw(st.sampled_from([None, None, None, None, None, None, "bad-value", "bad-header", "sink-fails"])),
    }


def build_records(case) -> tuple:
    from kio.records.schema import Record, RecordHeader

    recs = []
    for r in case["records"]:
        dt = EPOCH + datetime.timedelta(milliseconds=r["ts_ms"])
        if r["tz"]:
            try:
                if isinstance(r["tz"], str):
                    # a named zone with DST rules; zoneinfo hands out ONE shared tzinfo object per name, so records of a
                    # batch on different sides of an offset change share their tzinfo (Python then subtracts wall clocks)
                    import zoneinfo

                    dt = dt.astimezone(zoneinfo.ZoneInfo(r["tz"]))
                elif isinstance(r["tz"], (list, tuple)):  # ("s", seconds): a UTC offset that is not a whole number of minutes
                    dt = dt.astimezone(datetime.timezone(datetime.timedelta(seconds=r["tz"][1])))
                else:
                    dt = dt.astimezone(datetime.timezone(datetime.timedelta(minutes=r["tz"])))
            except Exception:
                pass
        if r.get("us"):
            dt = dt + datetime.timedelta(microseconds=r["us"])
        recs.append(Record(attributes=r["attributes"], timestamp=dt, offset=r["offset"], key=r["key"], value=r["value"],
                           headers=tuple(RecordHeader(key=k, value=v) for k, v in r["headers"])))
    return tuple(recs)


def build(case, records: tuple | None = None):
    from kio.records.schema import NewRecordBatch

    return NewRecordBatch(producer_id=case["producer_id"], producer_epoch=case["producer_epoch"],
                          partition_leader_epoch=case["partition_leader_epoch"], base_sequence=case["base_sequence"],
                          records=build_records(case) if records is None else records, attributes=case["attributes"])


def aligned(case: dict, target: int) -> dict:
    """The case with the last record's value stretched so that the checksummed section (attributes .. end of the batch) is
    exactly `target` bytes - block-wise I/O and checksumming code is most fragile at exact multiples of its block size.
    The library's writer is used for SIZING only."""
    from kio.records.writers import write_new_batch

    case = {**case, "records": [dict(r) for r in case["records"]]}
    last = case["records"][-1]
    for _ in range(6):
        buf = io.BytesIO()
        try:
            write_new_batch(buf, build(case))
        except Exception:
            return case
        section = len(buf.getvalue()) - 21
        if section == target:
            return case
        cur = last["value"] or b""
        if section > target:
            if len(cur) < section - target:
                return case  # cannot shrink that far
            last["value"] = cur[: len(cur) - (section - target)]
        else:
            last["value"] = cur + b"\xa5" * (target - section)
    return case


def failed_write_prelude(kind: str, nb) -> int:
    """Writes that fail part-way, as a producer sees them when an application hands over a malformed record or the
    connection drops: what they leave behind must not leak into the next batch.  -> number of failed writes
      bad-value   one record with a 300-byte key and 40 headers whose VALUE is a str (fails when the value is written)
      bad-header  three good records, then one whose last header value is a str
      sink-fails  the batch under test itself, on sinks that raise OSError at the 1st, 2nd, 3rd .. write call"""
    import dataclasses

    from kio.records.schema import Record, RecordHeader
    from kio.records.writers import write_batch, write_new_batch

    from ..streams import FaultySink

    n = 0
    good = Record(attributes=0, timestamp=EPOCH, offset=0, key=b"K" * 300, value=b"V" * 500,
                  headers=tuple(RecordHeader(key=b"h%d" % i, value=b"x" * 20) for i in range(40)))
    if kind == "bad-value":
        bads = [dataclasses.replace(nb, records=(dataclasses.replace(good, value="not-bytes"),))]
    elif kind == "bad-header":
        bad = dataclasses.replace(good, headers=good.headers[:-1] + (RecordHeader(key=b"last", value="not-bytes"),))
        bads = [dataclasses.replace(nb, records=(good, good, good, bad))]
    else:
        bads = []
        for k in (0, 1, 2, 3, 5, 8):
            for fn in (write_new_batch, write_batch):
                try:
                    fn(FaultySink(k, OSError("connection reset")), nb)
                except Exception:
                    n += 1
    for b in bads:
        for fn in (write_new_batch, write_batch):
            try:
                fn(io.BytesIO(), b)
            except Exception:
                n += 1
    return n


def check(case) -> list[tuple[str, str]]:
    from kio.records.writers import write_batch, write_new_batch

    nb = build(case)
    if case.get("prelude"):
        failed_write_prelude(case["prelude"], nb)
    outs = []
    for fn in (write_new_batch, write_batch):
        buf = io.BytesIO()
        try:
            fn(buf, nb)
        except Exception as e:
            return [(f"write-raised:{K.exc_signature(e)}", f"{fn.__name__} raised {e!r} for {_brief(case)}")]
        outs.append(buf.getvalue())
    if outs[0] != outs[1]:
        return [("write_batch-differs-from-write_new_batch", _brief(case))]
    data = outs[0]
    if len(data) % 4 == 1:
        # the target is not always a fresh buffer: a REUSED BytesIO that still holds older, longer content is overwritten from
        # position 0 (what lies behind the new batch stays), and a batch is appended behind existing content
        for label, prefill, pos in (("reused", b"\x5a" * (len(data) + 37), 0), ("appended", b"older-content", 13)):
            buf = io.BytesIO(prefill)
            buf.seek(pos)
            try:
                write_new_batch(buf, nb)
            except Exception as e:
                return [(f"write-raised:{label}-buffer:{K.exc_signature(e)}", f"write_new_batch into a {label} buffer raised {e!r} for {_brief(case)}")]
            got = buf.getvalue()
            if got[pos:pos + len(data)] != data or got[:pos] != prefill[:pos] or got[pos + len(data):] != prefill[pos + len(data):]:
                k = next((i for i, (a, b) in enumerate(zip(got[pos:], data)) if a != b), -1)
                return [(f"bytes-depend-on-target-content:{label}", f"write_new_batch into a {label} BytesIO (older content of {len(prefill)} bytes, position {pos}) wrote "
                         f"different bytes than into a fresh one (first difference at batch offset {k}) or disturbed the surrounding content; {_brief(case)}")]
    try:
        wb, used = decode_batch(data)
    except BatchFormatError as e:
        return [(f"not-a-valid-v2-batch:{str(e).split(' ')[0]}", f"{e} -- output {data[:80].hex()}.. for {_brief(case)}")]
    out = []
    recs = case["records"]
    first, last = recs[0], recs[-1]

    def exp(name, got, want):
        if got != want:
            out.append((f"field:{name}", f"{name} = {got}, expected {want} for {_brief(case)}"))

    if used != len(data):
        out.append(("trailing-bytes", f"{len(data) - used} bytes after the batch"))
    exp("base_offset", wb.base_offset, first["offset"])
    exp("batch_length", wb.batch_length, len(data) - 12)
    exp("last_offset_delta", wb.last_offset_delta, last["offset"] - first["offset"])
    exp("base_timestamp", wb.base_timestamp, first["ts_ms"])
    exp("max_timestamp", wb.max_timestamp, max(r["ts_ms"] for r in recs))
    exp("record_count", len(wb.records), len(recs))
    for name in ("producer_id", "producer_epoch", "partition_leader_epoch", "base_sequence", "attributes"):
        exp(name, getattr(wb, name), case[name])
    for i, (wr, r) in enumerate(zip(wb.records, recs)):
        exp("record.attributes", wr.attributes, r["attributes"])
        exp("record.timestamp_delta", wr.timestamp_delta, r["ts_ms"] - first["ts_ms"])
        exp("record.offset_delta", wr.offset_delta, r["offset"] - first["offset"])
        exp("record.key", wr.key, r["key"])
        exp("record.value", wr.value, r["value"])
        exp("record.headers", [(h.key, h.value) for h in wr.headers], [tuple(h) for h in r["headers"]])
    return out


def _brief_obj(case) -> dict:
    def b(x):
        return None if x is None else (x.hex() if len(x) <= 8 else f"<{len(x)} bytes>")

    return {**{k: v for k, v in case.items() if k != "records"},
            "records": [{**r, "key": b(r["key"]), "value": b(r["value"]), "headers": [[b(k), b(v)] for k, v in r["headers"]]}
                        for r in case["records"]]}


def _brief(case) -> str:
    return json.dumps(_brief_obj(case))[:900]


def nontrivial(case) -> bool:
    recs = case["records"]
    nonmono = len(recs) >= 2 and (
        any(a["offset"] > b["offset"] for a, b in zip(recs, recs[1:])) or any(a["ts_ms"] > b["ts_ms"] for a, b in zip(recs, recs[1:])))
    nulls = any(r["key"] is None or r["value"] is None or any(k is None or v is None for k, v in r["headers"]) for r in recs)
    return nonmono or nulls


def case_to_json(case):
    def b(x):
        return None if x is None else {"$": "b", "v": x.hex()}

    return {**case, "records": [{**r, "key": b(r["key"]), "value": b(r["value"]), "headers": [[b(k), b(v)] for k, v in r["headers"]]}
                                for r in case["records"]]}


def case_from_json(doc):
    def b(x):
        return None if x is None else bytes.fromhex(x["v"])

    return {**doc, "records": [{**r, "key": b(r["key"]), "value": b(r["value"]), "headers": [(b(k), b(v)) for k, v in r["headers"]]}
                               for r in doc["records"]]}


def minimize(case, sig):
    """Greedy field-wise simplification keeping the same signature."""
    def fails(c):
        try:
            return any(s == sig for s, _ in check(c))
        except Exception:
            return False

    cur = case
    changed = True
    steps = 0
    while changed and steps < 300:
        changed = False
        cands = []
        if len(cur["records"]) > 1:
            for i in range(1, len(cur["records"])):
                cands.append({**cur, "records": cur["records"][:i] + cur["records"][i + 1:]})
        for k in ("producer_id", "producer_epoch", "partition_leader_epoch", "base_sequence", "attributes"):
            if cur[k] != 0:
                cands.append({**cur, k: 0})
        if cur.get("prelude"):
            cands.append({**cur, "prelude": None})
        for i, r in enumerate(cur["records"]):
            for k, v in (("key", None), ("value", None), ("headers", []), ("attributes", 0), ("tz", 0), ("offset", 0), ("us", 0)):
                if r.get(k, v) != v:
                    cands.append({**cur, "records": cur["records"][:i] + [{**r, k: v}] + cur["records"][i + 1:]})
            if r["ts_ms"] > 0:
                for v in (0, r["ts_ms"] // 2, r["ts_ms"] - 1, r["ts_ms"] % 1000, r["ts_ms"] - r["ts_ms"] % 1000):
                    if v != r["ts_ms"]:
                        cands.append({**cur, "records": cur["records"][:i] + [{**r, "ts_ms": v}] + cur["records"][i + 1:]})
        for c in cands:
            steps += 1
            if fails(c):
                cur = c
                changed = True
                break
    return cur


def _worker(task):
    seed, n = task
    rep = Report(prop=ID, level="exploration", rule=RULE)
    raw = {}

    @hypothesis.seed(seed)
    @settings(max_examples=n, database=None, deadline=None, phases=[Phase.generate], suppress_health_check=list(HealthCheck))
    @given(batch_cases())
    def test(case):
        if (len(json.dumps(_brief_obj(case))) + len(case["records"])) % 8 == 0:
            # one case in eight is stretched to an exact power-of-two size of the checksummed section
            case = aligned(case, (4096, 8192, 16384, 32768, 65536, 131072, 196608)[len(case["records"]) % 7])
            rep.labels["aligned_section"] += 1
        rep.evaluations += 1
        if case.get("prelude"):
            rep.labels["after_failed_write"] += 1
        rep.labels[f"records_{min(len(case['records']), 4)}{'+' if len(case['records']) > 4 else ''}"] += 1
        if any((r["key"] and len(r["key"]) >= 16384) or (r["value"] and len(r["value"]) >= 16384) for r in case["records"]):
            rep.labels["large_key_or_value"] += 1
        if nontrivial(case):
            rep.nontrivial.add(case_hash(json.dumps(_brief_obj(case))))
            rep.labels["nontrivial"] += 1
            if len(rep.samples) < 2:
                rep.samples.append(_brief_obj(case))
        for sig, msg in check(case):
            size = len(_brief(case))
            if sig not in raw or size < raw[sig][0]:
                raw[sig] = (size, case, msg)

    test()
    for sig, (_s, case, msg) in raw.items():
        small = minimize(case, sig)
        msgs = [m for s, m in check(small) if s == sig]
        rep.add_failure(Failure(sig, msgs[0] if msgs else msg, case_to_json(small), len(_brief(small))))
    return rep


def _concurrency_cases() -> list[dict]:
    out = []
    for seed in (1, 2):
        out.append({"producer_id": seed, "producer_epoch": seed, "partition_leader_epoch": seed, "base_sequence": seed, "attributes": 0, "prelude": None,
                    "records": [{"attributes": 0, "ts_ms": 1700000000000 * seed + 7 * i, "tz": 0 if i else 60, "offset": 10 * seed + i,
                                 "key": None if i == 1 else b"k%d" % (seed * 10 + i), "value": bytes([64 + seed]) * (4 + 3 * i + seed),
                                 "headers": [(b"h", bytes([seed, i]))] if i != 2 else []} for i in range(3)]})
    return out


def _concurrency_worker(task):
    """Two threads write two different batches to their own buffers under a deterministic scheduler; ONE preemption is
    swept over every source line of kio the writes execute (this shard: steps start, start+stride, ..)."""
    import os

    import kio
    from kio.records.writers import write_new_batch

    from ..sched import sweep_one_preemption

    start, stride = task
    rep = Report(prop=ID, level="exploration", rule=RULE)
    cases = _concurrency_cases()

    def make_programs():
        def prog(case):
            def body():
                buf = io.BytesIO()
                write_new_batch(buf, build(case))
                return buf.getvalue()
            return body
        return [prog(c) for c in cases]

    want = None
    for label, r in sweep_one_preemption(make_programs, os.path.dirname(kio.__file__), stride=stride, start=start):
        rep.evaluations += 2
        rep.labels["concurrent_schedules"] += 1
        rep.nontrivial.add(case_hash(("concurrent", label)))
        if r.errors:
            tid, e = r.errors[0]
            rep.add_failure(Failure(f"concurrent:write-raised:{K.exc_signature(e)}", f"{label}: thread {tid} raised {e!r:.300} while another thread wrote a "
                                    f"different batch; preempted at {r.preempted_at}", {"concurrent": True}, 1))
            break
        if label == "sequential":
            want = r.results
            continue
        if r.results != want:
            tid = 0 if r.results[0] != want[0] else 1
            rep.add_failure(Failure("concurrent:write-differs", f"{label}: thread {tid} wrote {r.results[tid].hex()[:200]}, alone it writes {want[tid].hex()[:200]}; "
                                    f"preempted at {r.preempted_at}", {"concurrent": True}, 1))
            break
    return rep


def run(ctx: Ctx) -> Report:
    total = Report(prop=ID, level="exploration", rule=RULE)
    for rep in pool_map(_concurrency_worker, [(i, 16) for i in range(16)]):
        total.merge(rep)
    for case in _concurrency_cases():  # the fixed batches of the concurrency stage are themselves checked against the oracle
        for sig, msg in check(case):
            total.add_failure(Failure(sig, msg, case_to_json(case), 1))
    n_total = 8000 if ctx.quick else 200000
    shards = 16
    tasks = [(ctx.subseed("shard", i), n_total // shards) for i in range(shards)]
    for rep in pool_map(_worker, tasks):
        total.merge(rep)
    total.assumptions = [
        "record timestamps are whole milliseconds (the property's domain); sub-millisecond TZAwareMicros values are not generated",
        "trusted base: kv/refbatch.py, validated against the four real-broker batches of tests/records/fixtures.py",
    ]
    return total


def replay(case):
    if case.get("concurrent"):
        out = []
        for i in range(4):
            out += [(f.signature, f.message) for f in _concurrency_worker((i, 4)).failures.values()]
        return out
    return check(case_from_json(case))
