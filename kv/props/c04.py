"""C04 -- the shipped schema is exactly what the generator derives from the pinned definitions."""

from __future__ import annotations

import shutil
from pathlib import Path

from ..engine import ROOT, Ctx, Failure, HarnessError, Report, case_hash
from ..gen import REPO, dump_tree, make_scratch, run_generator
from ..pins import pins

ID = "C04"
FIXTURE = ROOT / "fixtures" / "defs-3.9.0"
RULE = (
    "exhaustive three-way agreement over a finite space: the CURRENT generator (codegen/ copied to a scratch tree) is "
    "run on the committed definition fixture fixtures/defs-3.9.0 (186 definitions + error-codes.txt, reconstructed once "
    "from the baseline package and accepted because generator(fixture) == package held); every generated module is "
    "imported in a child process and dumped canonically (per class: field names, order, annotation structure, "
    "kafka_type, tag, default repr+type, metadata keys, class vars incl. header schema, dataclass params, slots, bases; "
    "per package __all__; custom types; error enum; index tables); the same dump is taken from /repo/src; the two dumps "
    "are compared entry by entry, and class/module/field/key totals with the independent pins. Non-trivial = compared "
    "class with >=1 field; distinct = (module, class)."
)


def compare_dumps(gen: dict, shipped: dict) -> list[tuple[str, str, dict]]:
    out = []
    for err in gen["import_errors"]:
        out.append(("generated-module-does-not-import", f"{err[0]}: {err[1]}", {"module": err[0]}))
    for err in shipped["import_errors"]:
        out.append(("shipped-module-does-not-import", f"{err[0]}: {err[1]}", {"module": err[0]}))
    ga, sa = gen["classes"], shipped["classes"]
    for k in sorted(set(ga) - set(sa)):
        out.append(("class-missing-from-package", f"{k} is generated from the pinned definitions but not shipped", {"class": k}))
    for k in sorted(set(sa) - set(ga)):
        out.append(("class-not-derivable", f"{k} is shipped but the generator does not derive it from the pinned definitions", {"class": k}))
    for k in sorted(set(ga) & set(sa)):
        x, y = ga[k], sa[k]
        if x == y:
            continue
        for cv in x["classvars"]:
            if x["classvars"][cv] != y["classvars"][cv]:
                out.append((f"classvar:{cv}", f"{k}.{cv}: generated {x['classvars'][cv]!r}, shipped {y['classvars'][cv]!r}", {"class": k}))
        if x["params"] != y["params"]:
            out.append(("dataclass-options", f"{k}: generated {x['params']}, shipped {y['params']}", {"class": k}))
        if x["bases"] != y["bases"]:
            out.append(("bases", f"{k}: generated {x['bases']}, shipped {y['bases']}", {"class": k}))
        nx, ny = [f["name"] for f in x["fields"]], [f["name"] for f in y["fields"]]
        if nx != ny:
            out.append(("field-names-or-order", f"{k}: generated {nx}, shipped {ny}", {"class": k}))
        fy = {f["name"]: f for f in y["fields"]}
        for f in x["fields"]:
            g = fy.get(f["name"])
            if g is None:
                continue
            for key in f:
                if f[key] != g[key]:
                    out.append((f"field:{key}", f"{k}.{f['name']}.{key}: generated {f[key]!r}, shipped {g[key]!r}", {"class": k}))
    for sec, label in (("modules", "module-class-list"), ("packages", "package-exports"), ("types", "custom-types")):
        gx, sx = gen[sec], shipped[sec]
        for k in sorted(set(gx) | set(sx)):
            if gx.get(k) != sx.get(k):
                out.append((label, f"{k}: generated {gx.get(k)!r}, shipped {sx.get(k)!r}", {sec: k}))
    if gen["errors"] != shipped["errors"]:
        gs, ss = {tuple(e) for e in gen["errors"]}, {tuple(e) for e in shipped["errors"]}
        out.append(("error-code-table", f"generated-only {sorted(gs - ss)[:5]}, shipped-only {sorted(ss - gs)[:5]}"
                    f"{' (order differs)' if gs == ss else ''}", {"errors": True}))
    gi, si = gen["index"], shipped["index"]
    if gi.get("api_key_map") != si.get("api_key_map"):
        out.append(("index:api_key_map", f"generated {sorted(set(map(tuple, gi.get('api_key_map', {}).items())) ^ set(map(tuple, si.get('api_key_map', {}).items())))[:6]}", {"index": True}))
    gm, sm = gi.get("schema_name_map", {}), si.get("schema_name_map", {})
    for name in sorted(set(gm) | set(sm)):
        if gm.get(name) != sm.get(name):
            out.append(("index:schema_name_map", f"{name}: generated {str(gm.get(name))[:200]}, shipped {str(sm.get(name))[:200]}", {"index": name}))
    return out


def compare_with_pins(dump: dict, which: str) -> list[tuple[str, str, dict]]:
    out = []
    tot = pins()["totals"]
    n_classes = len(dump["classes"])
    n_fields = sum(len(c["fields"]) for c in dump["classes"].values())
    n_modules = len(dump["modules"])
    keys = len(dump["index"].get("api_key_map", {}))
    for label, got, want in (("classes", n_classes, tot["classes"]), ("fields", n_fields, tot["fields"]),
                             ("version_modules", n_modules, tot["version_modules"]), ("api_keys", keys, tot["api_keys"])):
        if got != want:
            out.append((f"totals:{label}", f"{which}: {got} {label}, pinned {want}", {"totals": label}))
    apis = pins()["apis"]
    seen = {}
    for path, c in dump["classes"].items():
        cv = c["classvars"]
        if cv["__type__"] in (None, "nested"):
            continue
        mod = path.split(":")[0].split(".")
        api, v, t = mod[2], int(mod[3][1:]), mod[4]
        seen.setdefault((api, t), []).append(v)
        pin = apis.get(api, {}).get(t)
        if pin is None:
            out.append(("pins:unknown-family", f"{which}: {api}/{t}", {"class": path}))
            continue
        flex = pin["first_flexible"] is not None and v >= pin["first_flexible"]
        if cv["__flexible__"] is not flex:
            out.append(("pins:flexible", f"{which}: {path} flexible={cv['__flexible__']}, Kafka says {flex}", {"class": path}))
        if cv["__api_key__"] != pin["api_key"]:
            out.append(("pins:api_key", f"{which}: {path} api key {cv['__api_key__']}, Kafka says {pin['api_key']}", {"class": path}))
    for (api, t), vs in seen.items():
        pin = apis.get(api, {}).get(t)
        if pin is None:  # reported above as pins:unknown-family (e.g. a package whose derived name changed)
            continue
        if sorted(vs) != list(range(pin["min"], pin["max"] + 1)):
            out.append(("pins:versions", f"{which}: {api}/{t} versions {sorted(vs)}, Kafka says {pin['min']}..{pin['max']}", {"family": [api, t]}))
    return out


def run(ctx: Ctx) -> Report:
    rep = Report(prop=ID, level="exploration", rule=RULE)
    rep.exhaustive = True
    if not FIXTURE.exists():
        raise HarnessError("fixtures/defs-3.9.0 is missing")
    scratch = make_scratch(FIXTURE)
    try:
        p = run_generator(scratch)
        if p.returncode != 0:
            tail = p.stderr.strip().splitlines()[-1] if p.stderr.strip() else "?"
            rep.add_failure(Failure(f"generator-fails-on-pinned-definitions:{tail.split(':')[0]}",
                                    "the current generator raised on the pinned definitions:\n" + p.stderr[-2500:], {"generator": True}))
            rep.evaluations = 1
            rep.nontrivial_count_override = 2
            return rep
        gen = dump_tree(scratch)
    finally:
        shutil.rmtree(scratch, ignore_errors=True)
    shipped = dump_tree(REPO)
    fails = compare_dumps(gen, shipped) + compare_with_pins(shipped, "shipped package") + compare_with_pins(gen, "generator output")
    for sig, msg, case in fails:
        rep.add_failure(Failure(sig, msg, case, len(msg)))
    rep.evaluations = len(set(gen["classes"]) | set(shipped["classes"]))
    for k, c in shipped["classes"].items():
        if c["fields"]:
            rep.nontrivial.add(case_hash(k))
    rep.extra.update({
        "definitions": len(list(FIXTURE.glob("*.json"))),
        "classes_compared": len(set(gen["classes"]) & set(shipped["classes"])),
        "fields_compared": sum(len(c["fields"]) for c in shipped["classes"].values()),
        "modules_compared": len(shipped["modules"]),
        "error_codes_compared": len(shipped["errors"]),
        "index_entries_compared": sum(len(tm) for vm in shipped["index"].get("schema_name_map", {}).values() for tm in vm.values()),
    })
    some = sorted(shipped["classes"])[:: max(1, len(shipped["classes"]) // 4)][:4]
    rep.samples = [{"class": k, "fields": [[f["name"], f["type"], f["kafka_type"], f["tag"], f["default"]] for f in shipped["classes"][k]["fields"]][:6]}
                   for k in some]
    rep.assumptions = [
        "the definition fixture pins what the baseline package encodes (upstream JSON is unreachable offline); a deviation of the "
        "baseline from upstream that the pins do not cover is invisible to this check",
        "docstrings and source formatting are not compared",
    ]
    return rep


def replay(case):
    rep = run(Ctx(prop=ID, tier="quick", seed=1))
    return [(f.signature, f.message) for f in rep.failures.values()]
