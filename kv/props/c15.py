"""C15 -- entities are immutable, hashable value objects."""

from __future__ import annotations

import copy
import dataclasses
import datetime
import enum
import io
import pickle
import uuid

import hypothesis
from hypothesis import HealthCheck, Phase, given, settings
from hypothesis import strategies as st

from .. import kioapi as K
from ..engine import Ctx, Failure, Report, case_hash
from ..refcodec import to_entity
from ..strategies import Profile
from ..treeprop import TreeSpec, note, run_tree_property

ID = "C15"
PROFILE = Profile("python_canonical_medium", long_lengths=(126, 127, 128, 129), max_array=3, long_arrays=True)
IMMUTABLE_LEAVES = (int, str, bytes, bool, float, type(None), uuid.UUID, datetime.datetime, datetime.timedelta, enum.Enum)


def walk_values(x, path="x"):
    """Yield (path, value) for every value reachable from an entity."""
    yield path, x
    if dataclasses.is_dataclass(x) and not isinstance(x, type):
        for f in dataclasses.fields(x):
            yield from walk_values(getattr(x, f.name), f"{path}.{f.name}")
    elif isinstance(x, (tuple, list, set, frozenset)):
        for i, item in enumerate(x):
            yield from walk_values(item, f"{path}[{i}]")
    elif isinstance(x, dict):
        for k, v in x.items():
            yield from walk_values(v, f"{path}[{k!r}]")


def perturb(v):
    """-> a value different from v, or _NO if none can be built generically."""
    if isinstance(v, bool):
        return not v
    if isinstance(v, enum.Enum):
        members = list(type(v))
        return members[(members.index(v) + 1) % len(members)] if len(members) > 1 else _NO
    if isinstance(v, int):
        return v + 1
    if isinstance(v, float):
        return v + 1.0 if v + 1.0 != v else v / 2 if v else 1.0
    if isinstance(v, str):
        return v + "x"
    if isinstance(v, bytes):
        return v + b"x"
    if isinstance(v, datetime.timedelta):
        return v + datetime.timedelta(milliseconds=1) if v < datetime.timedelta(days=1) else v - datetime.timedelta(milliseconds=1)
    if isinstance(v, datetime.datetime):
        return v + datetime.timedelta(milliseconds=1) if v.year < 9999 else v - datetime.timedelta(milliseconds=1)
    if isinstance(v, uuid.UUID):
        return uuid.UUID(int=(v.int + 1) % 2**128 or 1)
    if isinstance(v, tuple):
        if v:
            p = perturb(v[-1])
            return v[:-1] + (p,) if p is not _NO else v + v[-1:]
        return _NO
    if dataclasses.is_dataclass(v):
        for f in dataclasses.fields(v):
            p = perturb(getattr(v, f.name))
            if p is not _NO:
                return dataclasses.replace(v, **{f.name: p})
    return _NO


_NO = object()


def _snapshot(x):
    """State of the original before/after the operations; a pickling failure is reported by the copy section below."""
    try:
        return (repr(x), pickle.dumps(x, protocol=4))
    except Exception:
        return (repr(x), None)


def check_instance(x, rebuild, selector: int, label: str) -> list[tuple[str, str]]:
    out = []
    cls = type(x)
    name = f"{cls.__module__}:{cls.__qualname__}"
    fields = dataclasses.fields(x)
    snapshot = _snapshot(x)
    # --- class level
    params = getattr(cls, "__dataclass_params__", None)
    if params is None or not params.frozen or not params.eq:
        out.append(("class-not-frozen-eq", f"{name}: __dataclass_params__ = {params!r}"))
    if "__slots__" not in vars(cls):
        out.append(("class-without-slots", f"{name}"))
    for f in fields:
        if not f.compare or f.hash not in (None, True):
            out.append(("field-excluded-from-eq-or-hash", f"{name}.{f.name}: compare={f.compare} hash={f.hash}"))
    for special in ("__eq__", "__hash__"):
        fn = vars(cls).get(special)
        if fn is not None and getattr(fn, "__qualname__", "").split(".")[0] != "__create_fn__" and "dataclasses" not in getattr(getattr(fn, "__code__", None), "co_filename", "<string>") \
                and getattr(getattr(fn, "__code__", None), "co_filename", "<string>") != "<string>":
            out.append((f"hand-written-{special}", f"{name} defines its own {special}"))
    if hasattr(x, "__dict__"):
        out.append(("instance-has-dict", f"{name} ({label})"))
    # --- attribute assignment / deletion
    for fname in [f.name for f in fields] + ["brand_new_attribute_xyz"]:
        try:
            setattr(x, fname, None)
            out.append(("setattr-accepted", f"{name}.{fname} = None was accepted ({label})"))
            return out  # the instance has been modified; nothing further can be concluded from it
        except (AttributeError, TypeError):
            pass
        except Exception as e:
            out.append((f"setattr-wrong-error:{type(e).__name__}", f"{name}.{fname}: {e!r}"))
        try:
            delattr(x, fname)
            out.append(("delattr-accepted", f"del {name}.{fname} was accepted ({label})"))
            return out
        except (AttributeError, TypeError):
            pass
        except Exception as e:
            out.append((f"delattr-wrong-error:{type(e).__name__}", f"{name}.{fname}: {e!r}"))
    # --- only immutable values reachable
    for path, v in walk_values(x):
        if dataclasses.is_dataclass(v) and not isinstance(v, type):
            p = getattr(type(v), "__dataclass_params__", None)
            if p is None or not p.frozen:
                out.append(("mutable-nested-entity", f"{name}: {path} is a non-frozen {type(v).__name__} ({label})"))
        elif isinstance(v, tuple):
            pass
        elif not isinstance(v, IMMUTABLE_LEAVES):
            out.append((f"mutable-value:{type(v).__name__}", f"{name}: {path} holds a {type(v).__name__} ({label})"))
    # --- equality and hash
    y = rebuild()
    if y is x:
        return out + [("harness", "rebuild returned the same object")]
    if not (x == y) or (x != y):
        out.append(("equal-fields-not-equal", f"{name}: two instances built from the same values compare unequal ({label}): {x!r:.300}"))
    try:
        hx, hy = hash(x), hash(y)
        if x == y and hx != hy:
            out.append(("hash-inconsistent-with-eq", f"{name}: equal instances hash differently ({label})"))
        if hash(x) != hx:
            out.append(("hash-unstable", f"{name}"))
    except TypeError as e:
        out.append(("unhashable", f"{name}: hash() raised {e!r} ({label})"))
    # one field changed -> unequal
    order = list(range(len(fields)))
    for k in range(len(order)):
        f = fields[order[(selector + k) % len(order)]]
        p = perturb(getattr(x, f.name))
        if p is _NO:
            continue
        note("perturbed")
        z = dataclasses.replace(x, **{f.name: p})
        if z == x or not (z != x):
            out.append(("differing-field-ignored-by-eq", f"{name}: instances differing in {f.name} ({getattr(x, f.name)!r:.80} vs {p!r:.80}) compare equal ({label})"))
        if getattr(z, f.name) != p and not (p != p):
            out.append(("replace-did-not-set", f"{name}.{f.name}"))
        for g in fields:
            if g.name != f.name and getattr(z, g.name) is not getattr(x, g.name) and getattr(z, g.name) != getattr(x, g.name):
                out.append(("replace-changed-other-field", f"{name}.{g.name}"))
        break
    # --- copies
    makers = [("copy.copy", lambda: copy.copy(x)), ("copy.deepcopy", lambda: copy.deepcopy(x)),
              ("dataclasses.replace", lambda: dataclasses.replace(x))]
    for proto in (2, 3, 4, 5):
        makers.append((f"pickle{proto}", lambda proto=proto: pickle.loads(pickle.dumps(x, protocol=proto))))
    for how, make in makers:
        try:
            c = make()
        except Exception as e:
            out.append((f"{how}-raised:{type(e).__name__}", f"{name}: {how} raised {e!r} ({label})"))
            continue
        if c is x:
            out.append((f"{how}-not-a-new-instance", f"{name} ({label})"))
        if type(c) is not cls or c != x:
            out.append((f"{how}-not-equal", f"{name}: {how} gave {c!r:.300} ({label})"))
        else:
            try:
                if hash(c) != hash(x):
                    out.append((f"{how}-hash-differs", f"{name} ({label})"))
            except TypeError:
                pass
    if _snapshot(x) != snapshot:
        out.append(("original-changed", f"{name}: the original instance changed while being copied/compared ({label})"))
    return out


def alias_twin(cd, x):
    """x with every value of a field declared with one of kio's custom id types (kio.schema.types: TopicName, GroupId,
    ...) wrapped in that type - what typed user code passes in, whereas the decoder hands out plain values.
    -> (twin, number of wrapped values)"""
    n = 0

    def conv(c, v):
        nonlocal n
        changes = {}
        for f in c.fields:
            cur = getattr(v, f.name)
            if cur is None:
                continue
            if f.kind == "struct":
                new = tuple(conv(f.struct, i) for i in cur) if f.array else conv(f.struct, cur)
                if f.array and all(a is b for a, b in zip(new, cur)):
                    continue
                if not f.array and new is cur:
                    continue
                changes[f.name] = new
            elif getattr(f.pytype, "__module__", "") == "kio.schema.types":
                try:
                    new = tuple(f.pytype(i) if i is not None else None for i in cur) if f.array else f.pytype(cur)
                except Exception:
                    continue
                if (f.array and any(type(a) is not type(b) for a, b in zip(new, cur))) or (not f.array and type(new) is not type(cur)):
                    n += 1
                    changes[f.name] = new
        return dataclasses.replace(v, **changes) if changes else v

    return conv(cd, x), n


def check(cd, tree, extra):
    selector = extra
    x = to_entity(cd, tree)
    try:
        early = pickle.dumps(x, protocol=4)  # taken before this case uses the class's reader/writer (for the first case of a
        # class: before they exist at all); loaded again at the end - a pickle outlives whatever the library does in between
    except Exception:
        early = None
    out = check_instance(x, lambda: to_entity(cd, tree), selector, "constructed")
    twin, wrapped = alias_twin(cd, x)
    if wrapped:
        note("alias_twins")
        if twin == x or x == twin:
            try:
                if hash(twin) != hash(x):
                    out.append(("equal-but-hash-differs:custom-id-type", f"{cd.path}: the instance built with kio.schema.types values equals the one built "
                                f"with plain values but hashes differently: {twin!r:.200}"))
                if twin not in {x} or x not in {twin}:
                    out.append(("equal-but-not-found-in-set:custom-id-type", f"{cd.path}: {twin!r:.200}"))
            except TypeError as e:
                out.append(("unhashable", f"{cd.path}: hash() raised {e!r} (alias twin)"))
        else:
            out.append(("alias-twin-not-equal", f"{cd.path}: an instance built with kio.schema.types values differs from the one built with the same plain "
                        f"values: {twin!r:.200} vs {x!r:.200}"))
    # what the library itself constructs
    try:
        b = K.encode(cd.cls, x)
        y, _ = K.decode(cd.cls, b)
    except Exception:
        note("not-decodable")
        return out
    out += check_instance(y, lambda: K.decode(cd.cls, b)[0], selector, "decoded")
    for path, v in walk_values(y):
        if isinstance(v, list):
            out.append(("reader-returns-list", f"{cd.path}: {path} is a list in decoder output"))
    if early is not None:
        try:
            late = pickle.loads(early)
            if late != x or x != late:
                out.append(("pickle-from-before-codec-use-not-equal", f"{cd.path}: a pickle taken before the class's reader/writer were built and used loads as "
                            f"{late!r:.300}, the original is {x!r:.300}"))
        except Exception as e:
            out.append((f"pickle-from-before-codec-use-raised:{type(e).__name__}", f"{cd.path}: {e!r:.200}"))
    return out


def nontrivial(cd, tree, labels, extra):
    return any(f.kind == "struct" and tree.get(f.name) not in (None, []) for f in cd.fields) or "tagged_nondefault" in labels


def sample_of(cd, tree, extra):
    return {"class": cd.path, "value": repr(to_entity(cd, tree))[:400], "perturbed_field_selector": extra}


SPEC = TreeSpec(
    prop=ID,
    level="exploration",
    rule=(
        "one Hypothesis run per entity class (+ Record, RecordHeader, RecordBatch, NewRecordBatch); each case = an instance "
        "built by the harness and the instance the decoder returns for its encoding, plus a drawn field to perturb. Oracle: "
        "setattr/delattr on every field and on a fresh name raise; no __dict__; frozen+eq dataclass with __slots__; every "
        "reachable value is int/str/bytes/bool/float/None/UUID/datetime/timedelta/enum/tuple/frozen entity (arrays from the "
        "decoder are tuples); an independently rebuilt instance is == and hashes equal; an instance with one field changed "
        "is != (on a fully populated instance of EVERY class each field is perturbed in turn, and no field may be declared with compare=False/hash=False); copy.copy, deepcopy, dataclasses.replace(x), replace(x, f=v) and pickle protocols 2-5 give equal new "
        "instances (replace with a change differs in exactly that field) and leave repr/pickle of the original unchanged. "
        "Non-trivial = instance with >=1 nested entity or non-default tagged field; distinct by hash of (class, tree)."
    ),
    profile=PROFILE,
    check=check,
    nontrivial=nontrivial,
    extra=lambda cd: st.integers(0, 1000),
    sample_of=sample_of,
    quick_examples=25,
    thorough_examples=80,
    assumptions=("NaN floats are outside the canonical domain (f64 excludes them), so reflexive equality is expected",),
)


def _records_report(ctx: Ctx) -> Report:
    from . import c17

    rep = Report(prop=ID, level="exploration", rule=SPEC.rule)
    n = 40 if ctx.quick else 400

    @hypothesis.seed(ctx.subseed("records"))
    @settings(max_examples=n, database=None, deadline=None, phases=[Phase.generate], suppress_health_check=list(HealthCheck))
    @given(c17.batch_cases(), st.integers(0, 1000), st.lists(st.sampled_from([0, 0, 1, 250, 999]), min_size=8, max_size=8))
    def test(case, selector, micros):
        # Record.timestamp is a TZAwareMicros: give some records a sub-millisecond part (copy/pickle must keep it)
        case = {**case, "records": [{**r, "us": micros[i % 8] if r["ts_ms"] < 253402300799000 else 0} for i, r in enumerate(case["records"])]}
        from kio.records.readers import read_batch
        from kio.records.writers import write_batch

        if selector % 3 == 0 and len(case["records"]) >= 2:
            # "unnumbered" records, as an application hands them to a producer: every offset 0
            case = {**case, "records": [{**r, "offset": 0} for r in case["records"]]}
        # the records exist BEFORE any batch does; placing them in batches (construction, replace, a second batch sharing
        # them) must leave each of them exactly as it was
        recs = c17.build_records(case)
        try:
            before = [(_snapshot(r), hash(r), copy.deepcopy(r)) for r in recs]
        except TypeError as e:
            rep.add_failure(Failure("unhashable", f"hash() of a record raised {e!r}", {"records_case": c17.case_to_json(case), "selector": selector}, 1))
            return
        nb = c17.build(case, recs)
        dataclasses.replace(nb, records=recs[::-1])
        c17.build({**case, "producer_id": 7}, recs)
        for i, (r, (snap, h, dup)) in enumerate(zip(recs, before)):
            rep.evaluations += 1
            if _snapshot(r) != snap or hash(r) != h or r != dup:
                rep.add_failure(Failure("component-changed-by-container", f"record {i} was {snap[0][:300]} before it was placed in a NewRecordBatch and is "
                                        f"{r!r:.300} afterwards (hash {'changed' if hash(r) != h else 'same'})",
                                        {"records_case": c17.case_to_json(case), "selector": selector}, 1))
                break
        objs = [(nb, lambda: c17.build(case))]
        rec = nb.records[0]
        objs.append((rec, lambda: c17.build(case).records[0]))
        if rec.headers:
            objs.append((rec.headers[0], lambda: c17.build(case).records[0].headers[0]))
        buf = io.BytesIO()
        write_batch(buf, nb)
        data = buf.getvalue()
        rb = read_batch(io.BytesIO(data))
        objs.append((rb, lambda: read_batch(io.BytesIO(data))))
        for x, rebuild in objs:
            rep.evaluations += 1
            rep.nontrivial.add(case_hash((type(x).__name__, repr(x)[:2000])))
            for sig, msg in check_instance(x, rebuild, selector, "records"):
                rep.add_failure(Failure(sig, msg, {"records_case": c17.case_to_json(case), "selector": selector}, len(msg)))

    test()
    rep.labels["record_class_instances"] = rep.evaluations
    return rep


def rich_tree(cd):
    """Deterministic instance with every field populated: one-item arrays, non-null nullables, tags present."""
    from ..refcodec import Present

    tree = {}
    for f in cd.fields:
        if f.kind == "struct":
            item = rich_tree(f.struct)
        elif f.kind == "float64":
            item = bytes.fromhex("3ff8000000000000")
        elif f.kind == "uuid":
            item = bytes(range(16))
        elif f.kind in ("string", "bytes", "records"):
            item = b"v"
        elif f.kind == "bool":
            item = 1
        elif f.kind == "error_code":
            item = 3
        else:
            item = 5
        v = [item] if f.array else item
        tree[f.name] = Present(v) if f.tag is not None else v
    return tree


def every_field_matters(cd, x) -> list:
    out = []
    for f in dataclasses.fields(x):
        p = perturb(getattr(x, f.name))
        if p is _NO:
            out.append(("harness:unperturbable", f"{cd.path}.{f.name}: {getattr(x, f.name)!r}"))
            continue
        z = dataclasses.replace(x, **{f.name: p})
        if z == x or not (z != x):
            out.append(("differing-field-ignored-by-eq", f"{cd.path}: instances differing only in {f.name} compare equal"))
        else:
            try:
                if hash(z) == hash(x):
                    note("hash_collisions_on_single_field_change")
            except TypeError:
                pass
    return out


def _all_classes_chunk(paths):
    from .. import describe as D
    from ..refcodec import zero_tree

    out = []
    for p in paths:
        cd = D.describe(D.resolve(p))
        fails = []
        for absent in (True, False):
            tree = zero_tree(cd, absent_tags=absent)
            fails += check(cd, tree, 0)
        rt = rich_tree(cd)
        fails += check(cd, rt, 1)
        fails += [f for f in every_field_matters(cd, to_entity(cd, rt)) if not f[0].startswith("harness:")]
        out.append((p, fails))
    return out


def _all_classes_report(ctx: Ctx) -> Report:
    """Every class, every run (also in quick): the zero instance through the full instance check."""
    from .. import describe as D
    from ..engine import pool_map

    rep = Report(prop=ID, level="exploration", rule=SPEC.rule)
    paths = [f"{c.__module__}:{c.__qualname__}" for c in D.all_classes()]
    for chunk in pool_map(_all_classes_chunk, [paths[i::32] for i in range(32)]):
        for p, fails in chunk:
            rep.evaluations += 3
            for sig, msg in fails:
                rep.add_failure(Failure(sig, msg, {"class": p, "tree": None, "zero": True}, len(msg)))
    rep.labels["all_classes_zero_instance"] = len(paths)
    return rep


def run(ctx: Ctx) -> Report:
    rep = run_tree_property(ctx, __name__, SPEC)
    rep.merge(_records_report(ctx))
    rep.merge(_all_classes_report(ctx))
    nd = rep.extra.get("counters", {}).get("not-decodable", 0)
    if nd > 0.05 * max(rep.evaluations, 1) and not rep.failures:
        from ..engine import HarnessError

        raise HarnessError(f"generator health: {nd} instances could not be encoded/decoded: inconclusive for decoder-built instances")
    if rep.extra.get("counters", {}).get("perturbed", 0) < rep.evaluations // 4:
        from ..engine import HarnessError

        raise HarnessError("generator health: too few perturbation cases")
    return rep


def replay(case):
    if "records_case" in case:
        from . import c17

        c = c17.case_from_json(case["records_case"])
        nb = c17.build(c)
        return check_instance(nb, lambda: c17.build(c), case.get("selector", 0), "records")
    if case.get("zero"):
        return _all_classes_chunk([case["class"]])[0][1]
    from ..treeprop import replay_tree_case

    return replay_tree_case(SPEC, case)
