"""C03 -- decoder accepts every conforming encoding (wire-first, reference encoder)."""

from __future__ import annotations

import io

from .. import kioapi as K
from ..engine import Ctx, Report
from ..refcodec import ref_encode, to_entity, is_canonical
from ..strategies import WIRE_CONFORMING
from ..treeprop import TreeSpec, run_tree_property

ID = "C03"


def check(cd, tree, extra):
    b = ref_encode(cd, tree)
    expected = to_entity(cd, tree)
    if len(b) % 6 == 4:
        from ..treeprop import note

        # earlier messages of this class were cut short (prefixes of a value with every tagged field present): what a
        # failed decode leaves behind must not show in the next conforming message
        note("preceded_by_failed_decodes", K.failed_decode_prelude(cd))
    src = io.BytesIO(b)
    try:
        got = K.entity_reader(cd.cls)(src)
    except Exception as e:
        return (f"decode-raised:{K.exc_signature(e)}",
                f"{cd.path}: decoding conforming bytes {b.hex()} raised {e!r}\n expected {expected!r}")
    out = []
    d = K.diff_path(expected, got)
    if d is not None:
        out.append((f"value-mismatch:{d}", f"{cd.path}: bytes {b.hex()}\n expected {expected!r}\n got      {got!r}"))
    if src.tell() != len(b):
        out.append((f"consumed:{'more' if src.tell() > len(b) else 'fewer'}",
                    f"{cd.path}: {len(b)} bytes given, {src.tell()} consumed; bytes {b.hex()}"))
    return out


_NT = {"unknown_tag", "tagged_explicit_default", "subsecond_timestamp", "int_limit", "float_nonfinite",
       "duration_gt_2p53"}


def nontrivial(cd, tree, labels, extra):
    return bool(labels & _NT)


def sample_of(cd, tree, extra):
    return {"class": cd.path, "bytes": ref_encode(cd, tree).hex()[:400], "expected": repr(to_entity(cd, tree))[:500]}


SPEC = TreeSpec(
    prop=ID,
    level="exploration",
    rule=(
        "one Hypothesis run per entity class; each case = wire tree over the full wire domain (full integer "
        "ranges, any float64 bit pattern, ms timestamps in [0, 9999-12-31T23:59:59.999], durations within the "
        "timedelta-representable i64 range, all null forms), tagged fields absent / present non-default / "
        "present with the default value (incl. explicit null), unknown tags (1-3 per struct, at any nesting "
        "level, tag numbers next to known ones and at 2^7, 2^14, 2^31-1) encoded by the reference encoder; "
        "oracle: entity_reader returns kv.refcodec.to_entity(tree) (floats bit-exact) and exhausts the input. "
        "Non-trivial = non-canonical tree (explicit default or unknown tag) or sub-second timestamp / limit "
        "integer / non-finite float / |duration|>2^53 ms; distinct by hash of (class, tree)."
    ),
    profile=WIRE_CONFORMING,
    check=check,
    size_sweep=True,
    nontrivial=nontrivial,
    sample_of=sample_of,
    assumptions=(
        "error codes are drawn from the shipped table only; durations are limited to what datetime.timedelta "
        "can represent (the documented i64Timedelta range)",
    ),
    floors={"nontrivial": 0.2},
)


def run(ctx: Ctx) -> Report:
    from ..selftest import run_selftest

    n_vectors = run_selftest()
    rep = run_tree_property(ctx, __name__, SPEC)
    rep.extra["reference_codec_selftest_vectors"] = n_vectors
    for lab in ("unknown_tag_nested", "tagged_explicit_null"):
        if rep.labels.get(lab, 0) < 5:
            from ..engine import HarnessError

            raise HarnessError(f"generator health: label {lab} seen only {rep.labels.get(lab, 0)} times")
    return rep


def replay(case):
    from ..treeprop import replay_tree_case

    return replay_tree_case(SPEC, case)
