"""C07 -- messages are self-delimiting on a sequential stream; sink/source kind does not matter."""

from __future__ import annotations

import io
import json

import hypothesis
from hypothesis import HealthCheck, Phase, given, settings
from hypothesis import strategies as st

from .. import describe as D
from .. import kioapi as K
from ..engine import HarnessError, Ctx, Failure, Report, case_hash, pool_map
from ..refcodec import py_equal, to_entity, tree_from_json, tree_to_json
from ..streams import ReadOnlySource, StreamProtocolViolation, WriteOnlySink, make_stream_writer
from ..strategies import Profile, tree_strategy

ID = "C07"
PROFILE = Profile("conversation", long_lengths=(126, 127, 128, 129, 8191, 8192, 8193, 16384), max_array=2, long_arrays=True,
                  long_array_lengths=(63, 64, 65, 129, 300), long_scalar_array_lengths=(1000,))
RULE = (
    "Hypothesis-generated conversations: 1-6 messages, each a request/response payload class drawn from all 646 (or a "
    "data/nested entity class) with a generated instance, preceded by an instance of its __header_schema__ (request "
    "header key/version filled from the payload class as in docs/pages/usage.rst); 0-32 leading and trailing junk "
    "bytes; one sink kind (BytesIO, write-only sink, real asyncio.StreamWriter over a recording transport, non-seekable "
    "BufferedWriter, unbuffered file object of a real OS socket pair, a queueing sink that keeps references without copying) and one source kind (BytesIO, read-only exact-size "
    "source, BufferedReader over a non-seekable raw stream with short reads, buffered file object of a real OS socket) per case. Oracle: (1) the bytes on the chosen sink equal lead + concatenation of each entity encoded alone "
    "into a fresh BytesIO + trail; (2) reading header_1, payload_1, ... in order from one source returns the original "
    "values and stops exactly at len(lead)+sum; (3) the write-only sink saw only write(bytes-like) calls and the "
    "read-only source only read(int>=0) calls whose sizes sum to the bytes consumed; any other stream access is a "
    "violation. Foreign-peer stage: for four flexible classes, two reference-encoded messages back to back that each carry a "
    "tagged field unknown to the schema version, of 0 .. 16 MiB (varint-width boundaries and block multiples), from a "
    "BytesIO and a read-only source: both decode to the value, each read ends exactly at the message end, the trail is intact. Non-trivial = >=2 messages of different classes with non-empty lead and trail; distinct by case hash."
)
SINKS = ["bytesio", "writeonly", "streamwriter", "buffered_nonseekable", "socket", "queueing_nocopy"]
SOURCES = ["bytesio", "readonly", "buffered_nonseekable", "socket"]


class _RawNoSeek(io.RawIOBase):
    def __init__(self, data: bytes = b""):
        self._d = bytearray(data)
        self._p = 0
        self.written = bytearray()

    def readable(self):
        return True

    def writable(self):
        return True

    def seekable(self):
        return False

    def readinto(self, b):
        n = min(len(b), len(self._d) - self._p, 7)  # short reads on purpose
        b[:n] = self._d[self._p:self._p + n]
        self._p += n
        return n

    def write(self, b):
        self.written += bytes(b)
        return len(b)


class _QueueingSink:
    def __init__(self):
        self.queue = []

    def write(self, data):
        if not isinstance(data, (bytes, bytearray, memoryview)):
            raise StreamProtocolViolation(f"sink.write({type(data).__name__}): not bytes-like")
        self.queue.append(data)  # no copy on purpose
        return len(data)

    def value(self) -> bytes:
        return b"".join(bytes(c) for c in self.queue)

    def __getattr__(self, name):
        raise StreamProtocolViolation(f"sink.{name} accessed")


def _payload_classes():
    out = []
    for api, v, t, modname in D.walk_version_modules():
        for c in D.module_classes(modname):
            if c.__type__.name == t and t in ("request", "response"):
                out.append(c)
    return out


_CLASSES = None


def classes():
    global _CLASSES
    if _CLASSES is None:
        payloads = _payload_classes()
        others = [c for c in D.all_classes() if c.__type__.name in ("data", "nested")][::9]
        _CLASSES = (payloads, others)
    return _CLASSES


@st.composite
def message(draw):
    payloads, others = classes()
    if draw(st.integers(0, 9)) == 0:
        cls = draw(st.sampled_from(others))
        return {"payload": (D.describe(cls).path, tree_to_json(draw(tree_strategy(D.describe(cls), PROFILE)))), "header": None}
    cls = draw(st.sampled_from(payloads))
    cd = D.describe(cls)
    tree = draw(tree_strategy(cd, PROFILE))
    hcd = D.describe(cls.__header_schema__)
    htree = draw(tree_strategy(hcd, PROFILE))
    if "request_api_key" in htree:
        htree["request_api_key"] = int(cls.__api_key__)
        htree["request_api_version"] = int(cls.__version__)
    return {"payload": (cd.path, tree_to_json(tree)), "header": (hcd.path, tree_to_json(htree))}


@st.composite
def conversations(draw):
    n = draw(st.sampled_from([1, 2, 2, 3, 4, 6]))
    junk = st.one_of(st.just(b""), st.binary(min_size=1, max_size=32), st.sampled_from([b"\x00", b"\xff" * 8, b"\x80\x80\x80\x80\x80"]))
    return {
        "messages": [draw(message()) for _ in range(n)],
        "lead": draw(junk).hex(), "trail": draw(junk).hex(),
        "sink": draw(st.sampled_from(SINKS)), "source": draw(st.sampled_from(SOURCES)),
    }


def _entities(case):
    ents = []
    for m in case["messages"]:
        for part in ("header", "payload"):
            if m[part] is None:
                continue
            path, tj = m[part]
            cd = D.describe(D.resolve(path))
            ents.append((cd, to_entity(cd, tree_from_json(tj))))
    return ents


def check(case) -> list[tuple[str, str]]:
    """The drawn sink/source kinds, plus - always - the two kinds that expose the most: the queueing sink that never
    copies paired with the strict read-only source, and the write-only sink paired with BytesIO."""
    combos = [(case["sink"], case["source"]), ("queueing_nocopy", "readonly"), ("writeonly", "bytesio")]
    out: list = []
    seen = set()
    for kind, skind in combos:
        if (kind, skind) in seen:
            continue
        seen.add((kind, skind))
        for sig, msg in check_with(case, kind, skind):
            if sig not in {s for s, _ in out}:
                out.append((sig, msg))
    return out


def check_with(case, kind: str, skind: str) -> list[tuple[str, str]]:
    ents = _entities(case)
    lead, trail = bytes.fromhex(case["lead"]), bytes.fromhex(case["trail"])
    alone = []
    for cd, x in ents:
        try:
            alone.append(K.encode(cd.cls, x))
        except Exception as e:
            return [(f"encode-alone-raised:{K.exc_signature(e)}", f"{cd.path}: {e!r}")]
    expected = lead + b"".join(alone) + trail
    out = []
    # ---- in one case of three an EARLIER connection dies first: the first message is written to a write-only sink that
    # raises at its k-th write.  What precedes a conversation - including a failed one on another stream - must not matter.
    if (len(lead) + len(trail) + len(ents)) % 3 == 0 and ents:
        from ..streams import FaultySink, InjectedFault

        cd0, x0 = ents[0]
        try:
            K.entity_writer(cd0.cls)(FaultySink(len(lead) % 4, InjectedFault("earlier connection reset")), x0)
        except InjectedFault:
            pass
        except StreamProtocolViolation as e:
            return [(f"sink-protocol:{str(e).split('(')[0].split(' ')[0]}", f"faulty write-only sink: {e}")]
        except Exception as e:
            return [(f"write-raised:faulty-writeonly:{K.exc_signature(e)}", f"{cd0.path}: {e!r}")]
    # ---- writing through the drawn sink kind
    loop = None
    socks: list = []
    try:
        if kind == "bytesio":
            sink = io.BytesIO()
            getv = sink.getvalue
        elif kind == "writeonly":
            sink = WriteOnlySink()
            getv = sink.value
        elif kind == "queueing_nocopy":
            # keeps a reference to every object it is handed and only copies when drained (like an asyncio transport
            # with a full send buffer): a writer that reuses a mutable buffer changes earlier chunks retroactively
            sink = _QueueingSink()
            getv = sink.value
        elif kind == "streamwriter":
            sink, transport, loop = make_stream_writer()
            getv = transport.value
        elif kind == "socket":
            # a real OS socket pair: the sink is the unbuffered write side (socket.makefile("wb", buffering=0))
            import socket

            import threading

            a, b_sock = socket.socketpair()
            socks.extend([a, b_sock])
            sink = a.makefile("wb", buffering=0)
            received: list = []

            def _drain():
                # the peer reads concurrently: thousands of tiny unbuffered writes exhaust the kernel's per-socket buffer
                # accounting long before their byte total would
                while True:
                    c = b_sock.recv(65536)
                    if not c:
                        return
                    received.append(c)

            drainer = threading.Thread(target=_drain, daemon=True)
            drainer.start()

            def getv():
                a.shutdown(socket.SHUT_WR)
                drainer.join(30)
                if drainer.is_alive():
                    raise HarnessError("socket drain thread did not finish")
                return b"".join(received)
        else:
            raw = _RawNoSeek()
            sink = io.BufferedWriter(raw, buffer_size=16)
            getv = lambda: (sink.flush(), bytes(raw.written))[1]  # noqa: E731
        sink.write(lead)
        for cd, x in ents:
            K.entity_writer(cd.cls)(sink, x)
        sink.write(trail)
        got = getv()
    except StreamProtocolViolation as e:
        return [(f"sink-protocol:{str(e).split('(')[0].split(' ')[0]}", f"sink kind {kind}: {e}")]
    except Exception as e:
        return [(f"write-raised:{kind}:{K.exc_signature(e)}", f"sink kind {kind}: {e!r}")]
    finally:
        if loop is not None:
            loop.close()
        for s_ in socks:
            s_.close()
    if got != expected:
        out.append((f"sink-bytes-differ:{kind}", f"sink kind {kind}: stream has {got.hex()[:300]}\n expected lead + parts + trail {expected.hex()[:300]}"))
    # ---- reading back through the drawn source kind
    stream = expected
    rsocks: list = []
    if skind == "bytesio":
        src = io.BytesIO(stream)
        pos = src.tell
    elif skind == "readonly":
        src = ReadOnlySource(stream)
        pos = lambda: src.consumed  # noqa: E731
    elif skind == "socket" and len(stream) <= 60000:
        import socket

        ra, rb = socket.socketpair()
        ra.sendall(stream)
        ra.shutdown(socket.SHUT_WR)
        fobj = rb.makefile("rb")  # buffered reader over a real socket
        consumed = {"n": 0}

        class _CountingSock:
            def read(self, n):
                data = fobj.read(n)
                consumed["n"] += len(data)
                return data

        src = _CountingSock()
        pos = lambda: consumed["n"]  # noqa: E731
        rsocks = [ra, rb, fobj]
    else:
        raw_r = _RawNoSeek(stream)
        src = io.BufferedReader(raw_r, buffer_size=16)
        consumed = {"n": 0}
        orig_read = src.read

        class _Counting:
            def read(self, n):
                data = orig_read(n)
                consumed["n"] += len(data)
                return data

        src = _Counting()
        pos = lambda: consumed["n"]  # noqa: E731
    try:
        junk = src.read(len(lead))
        if junk != lead:
            return out + [("harness", "lead not returned")]
        at = len(lead)
        for (cd, x), b in zip(ents, alone):
            y = K.entity_reader(cd.cls)(src)
            at += len(b)
            if not py_equal(x, y):
                out.append((f"stream-value-differs:{skind}", f"{cd.path} at offset {at - len(b)}: wrote {x!r:.300}\n read {y!r:.300}"))
                break
            if pos() != at:
                out.append((f"stream-position:{skind}", f"after {cd.path}: source position {pos()}, expected {at}"))
                break
        else:
            if skind == "readonly" and sum(src.sizes) != src.consumed:
                out.append(("read-sizes-do-not-sum", f"read sizes requested sum to {sum(src.sizes)} but {src.consumed} bytes were consumed"))
            rest = src.read(len(trail) + 5)
            if rest != trail:
                out.append((f"trail-disturbed:{skind}", f"after the last message the stream yields {rest.hex()}, expected {trail.hex()}"))
    except StreamProtocolViolation as e:
        out.append((f"source-protocol:{str(e).split('(')[0].split(' ')[0]}", f"source kind {skind}: {e}"))
    except Exception as e:
        out.append((f"read-raised:{skind}:{K.exc_signature(e)}", f"source kind {skind}: {e!r}"))
    finally:
        for s_ in rsocks:
            try:
                s_.close()
            except Exception:
                pass
    return out


def nontrivial(case) -> bool:
    paths = {m["payload"][0] for m in case["messages"]}
    return len(case["messages"]) >= 2 and len(paths) >= 2 and case["lead"] != "" and case["trail"] != ""


def minimize(case, sig):
    def fails(c):
        try:
            return any(s == sig for s, _ in check(c))
        except Exception:
            return False

    cur = case
    changed = True
    while changed:
        changed = False
        for i in range(len(cur["messages"])):
            if len(cur["messages"]) > 1:
                c = {**cur, "messages": cur["messages"][:i] + cur["messages"][i + 1:]}
                if fails(c):
                    cur, changed = c, True
                    break
        for k in ("lead", "trail"):
            if cur[k] and fails({**cur, k: ""}):
                cur, changed = {**cur, k: ""}, True
    # tree-level minimisation of each remaining part
    from ..treeprop import minimize_tree

    for i, m in enumerate(cur["messages"]):
        for part in ("header", "payload"):
            if m[part] is None:
                continue
            path, tj = m[part]
            cd = D.describe(D.resolve(path))

            def still(t, i=i, part=part, path=path):
                msgs = list(cur["messages"])
                msgs[i] = {**msgs[i], part: (path, tree_to_json(t))}
                return fails({**cur, "messages": msgs})

            small = minimize_tree(cd, tree_from_json(tj), still, budget=150)
            msgs = list(cur["messages"])
            msgs[i] = {**msgs[i], part: (path, tree_to_json(small))}
            cur = {**cur, "messages": msgs}
    return cur


def _worker(task):
    seed, n = task
    rep = Report(prop=ID, level="exploration", rule=RULE)
    raw = {}

    @hypothesis.seed(seed)
    @settings(max_examples=n, database=None, deadline=None, phases=[Phase.generate], suppress_health_check=list(HealthCheck))
    @given(conversations())
    def test(case):
        rep.evaluations += 1
        rep.labels[f"sink:{case['sink']}"] += 1
        rep.labels[f"source:{case['source']}"] += 1
        rep.labels[f"messages:{len(case['messages'])}"] += 1
        if nontrivial(case):
            rep.nontrivial.add(case_hash(json.dumps(case, sort_keys=True)))
            rep.labels["nontrivial"] += 1
            if len(rep.samples) < 1:
                rep.samples.append({"messages": [[m["header"][0] if m["header"] else None, m["payload"][0]] for m in case["messages"]],
                                    "lead": case["lead"], "trail": case["trail"], "sink": case["sink"], "source": case["source"]})
        for sig, msg in check(case):
            size = len(json.dumps(case))
            if sig not in raw or size < raw[sig][0]:
                raw[sig] = (size, case, msg)

    test()
    for sig, (_s, case, msg) in raw.items():
        small = minimize(case, sig)
        msgs = [m for s, m in check(small) if s == sig]
        rep.add_failure(Failure(sig, msgs[0] if msgs else msg, small, len(json.dumps(small))))
    return rep


FOREIGN_SIZES = (0, 1, 127, 128, 16383, 16384, 65536, 2097151, 2097152, 1 << 20, 1 << 22, 1 << 23, 3 << 22, 1 << 24)


def foreign_targets() -> list[str]:
    """flexible request/response classes: the first two with and the first two without tagged fields of their own"""
    out, seen = [], {True: 0, False: 0}
    for cls in _payload_classes():
        cd = D.describe(cls)
        if not cd.flexible:
            continue
        k = bool(cd.tagged_fields)
        if seen[k] < 2:
            seen[k] += 1
            out.append(cd.path)
    return out


def check_foreign(path: str, size: int, skind: str) -> list[tuple[str, str]]:
    """Two messages as a NEWER PEER writes them - reference-encoded, each carrying a tagged field this schema version does
    not know, of `size` bytes - back to back and followed by a trail: both must decode to the value without the unknown
    field, each read stopping exactly at the message's end (an unknown tagged field is skipped by its size prefix)."""
    from ..refcodec import UNKNOWN, ref_encode, zero_tree

    cd = D.describe(D.resolve(path))
    tree = zero_tree(cd)
    tag = max({f.tag for f in cd.tagged_fields} | {0}) + 1
    blob = (b"newer-peer-" * (size // 11 + 1))[:size]
    tree[UNKNOWN] = [(tag, blob)]
    one = ref_encode(cd, tree)
    plain = dict(tree)
    del plain[UNKNOWN]
    want = to_entity(cd, plain)
    trail = b"\x07trail"
    stream = one + one + trail
    if skind == "readonly":
        src = ReadOnlySource(stream)
        pos = lambda: src.consumed  # noqa: E731
    else:
        src = io.BytesIO(stream)
        pos = src.tell
    out = []
    try:
        for i in (1, 2):
            y = K.entity_reader(cd.cls)(src)
            if not py_equal(want, y):
                out.append((f"foreign:stream-value-differs:{skind}", f"{path}, unknown tagged field of {size} bytes, message {i}: read {y!r:.300}, expected {want!r:.300}"))
                break
            if pos() != i * len(one):
                out.append((f"foreign:stream-position:{skind}", f"{path}, unknown tagged field of {size} bytes: after message {i} the source is at {pos()}, "
                            f"the message ends at {i * len(one)}"))
                break
        else:
            if src.read(len(trail) + 3) != trail:
                out.append((f"foreign:trail-disturbed:{skind}", f"{path}, unknown tagged field of {size} bytes"))
    except StreamProtocolViolation as e:
        out.append((f"foreign:source-protocol:{str(e).split('(')[0].split(' ')[0]}", f"{path}, size {size}, source kind {skind}: {e}"))
    except Exception as e:
        out.append((f"foreign:read-raised:{skind}:{K.exc_signature(e)}", f"{path}, unknown tagged field of {size} bytes, source kind {skind}: {e!r:.300}"))
    return out


def _foreign_worker(task):
    path, size = task
    rep = Report(prop=ID, level="exploration", rule=RULE)
    for skind in ("bytesio", "readonly"):
        rep.evaluations += 1
        rep.labels["foreign"] += 1
        rep.nontrivial.add(case_hash(("foreign", path, size, skind)))
        for sig, msg in check_foreign(path, size, skind):
            rep.add_failure(Failure(sig, msg, {"foreign": {"class": path, "size": size, "source": skind}}, size))
    return rep


def run(ctx: Ctx) -> Report:
    total = Report(prop=ID, level="exploration", rule=RULE)
    n_total = 4800 if ctx.quick else 16000
    shards = 16
    for rep in pool_map(_worker, [(ctx.subseed("shard", i), n_total // shards) for i in range(shards)]):
        total.merge(rep)
    sizes = FOREIGN_SIZES if ctx.quick else FOREIGN_SIZES + ((1 << 24) + 1, 1 << 25, 3 << 24)
    for rep in pool_map(_foreign_worker, [(p, n) for p in foreign_targets() for n in sizes]):
        total.merge(rep)
    total.assumptions = ["stream kinds are emulations (recording transport, non-seekable raw stream with short reads), not real sockets"]
    return total


def replay(case):
    if "foreign" in case:
        f = case["foreign"]
        return check_foreign(f["class"], f["size"], f["source"])
    return check(case)
