"""C08 -- header schema and request/response pairing follow the Kafka rules (exhaustive)."""

from __future__ import annotations

import importlib

from .. import describe as D
from ..engine import Ctx, Failure, Report, case_hash
from ..pins import expected_header, pinned_flexible, pins
from ..refcodec import to_entity, zero_tree

ID = "C08"
RULE = (
    "exhaustive over every request and response module found on disk under src/kio/schema (323+323): expected header "
    "computed by an own implementation of the Kafka rule from (type, pinned api key, version, pinned first flexible "
    "version) and compared by identity with __header_schema__; __flexible__ and __api_key__ compared with the pins; "
    "request/response of the same (api, version) share key and flexibility; load_response_from_request / "
    "load_request_from_response are mutually inverse for classes and for instances (which of the two forms is looked up first varies by module). Non-trivial: every pair; distinct = "
    "(api key, version, type)."
)


def top_class(modname: str, etype: str):
    tops = [c for c in D.module_classes(modname) if c.__type__.name == etype]
    if len(tops) != 1:
        return None
    return tops[0]


def check_one(api: str, version: int, etype: str, modname: str) -> list[tuple[str, str]]:
    from kio.index import load_request_from_response, load_response_from_request

    out = []
    c = top_class(modname, etype)
    if c is None:
        return [("no-unique-top-level-class", f"{modname}: expected exactly one class with __type__ == {etype}")]
    pin = pins()["apis"].get(api, {}).get(etype)
    if pin is None:
        return [("not-pinned", f"{modname}: API/type not in the pins")]
    # the documented way to obtain the class is through the version package (from kio.schema.<api>.v<N> import <Class>):
    # it must hand out THIS class, to which all the rules below apply
    pkgname = modname.rsplit(".", 1)[0]
    try:
        exported = getattr(importlib.import_module(pkgname), c.__name__, None)
    except Exception as e:
        exported = None
        out.append((f"package-not-importable:{type(e).__name__}", f"{pkgname}: {e!r}"))
    if exported is not None and exported is not c:
        out.append(("package-exports-other-class", f"{pkgname}.{c.__name__} is {getattr(exported, '__module__', '?')}.{getattr(exported, '__qualname__', '?')} "
                    f"(version {getattr(exported, '__version__', '?')}, flexible {getattr(exported, '__flexible__', '?')}), not the class of {modname}"))
    flexible = pinned_flexible(api, etype, version)
    if c.__flexible__ is not flexible:
        out.append(("flexible-vs-pin", f"{modname}:{c.__name__}.__flexible__={c.__flexible__!r}, Kafka says {flexible}"))
    if c.__api_key__ != pin["api_key"] or isinstance(c.__api_key__, bool):
        out.append(("api-key-vs-pin", f"{modname}:{c.__name__}.__api_key__={c.__api_key__!r}, Kafka says {pin['api_key']}"))
    hname, hver = expected_header(etype, pin["api_key"], version, flexible)
    hmod = importlib.import_module(f"kio.schema.{hname}.v{hver}.header")
    hcls = getattr(hmod, "RequestHeader" if etype == "request" else "ResponseHeader")
    if c.__header_schema__ is not hcls:
        got = c.__header_schema__
        out.append((f"{etype}-header-rule",
                    f"{modname}:{c.__name__}.__header_schema__ is {got.__module__}.{got.__name__}, "
                    f"Kafka mandates {hname} v{hver}"))
    # pairing
    other_type = "response" if etype == "request" else "request"
    other_mod = f"kio.schema.{api}.v{version}.{other_type}"
    try:
        oc = top_class(other_mod, other_type)
    except ModuleNotFoundError:
        oc = None
    if oc is None:
        out.append(("pair-missing", f"{modname}: no {other_type} module for the same API version"))
        return out
    if oc.__api_key__ != c.__api_key__:
        out.append(("pair-api-key", f"{modname}: api key {c.__api_key__} but {other_type} has {oc.__api_key__}"))
    if oc.__flexible__ is not c.__flexible__:
        out.append(("pair-flexibility", f"{modname}: flexible={c.__flexible__} but {other_type} has {oc.__flexible__}"))
    fwd, back = (
        (load_response_from_request, load_request_from_response)
        if etype == "request"
        else (load_request_from_response, load_response_from_request)
    )
    inst = to_entity(D.describe(c), zero_tree(D.describe(c)))
    import zlib

    order = (("class", c), ("instance", inst))
    if zlib.crc32(modname.encode()) % 2:  # which form is looked up FIRST in the process varies by module
        order = order[::-1]
    for label, arg in order:
        try:
            there = fwd(arg)
            again = back(there)
        except Exception as e:
            out.append((f"pair-map-raised:{type(e).__name__}", f"{modname}: mapping {label} raised {e!r}"))
            continue
        if there is not oc:
            out.append(("pair-map-wrong-class", f"{modname}: {label} maps to {there!r}, expected {oc!r}"))
        if again is not c:
            out.append(("pair-map-not-inverse", f"{modname}: {label} -> {there!r} -> {again!r}, expected back {c!r}"))
        try:
            oinst = to_entity(D.describe(oc), zero_tree(D.describe(oc)))
            if back(oinst) is not c:
                out.append(("pair-map-not-inverse", f"{modname}: instance of {oc!r} maps back to {back(oinst)!r}"))
        except Exception as e:
            out.append((f"pair-map-raised:{type(e).__name__}", f"{modname}: mapping instance of {oc!r} raised {e!r}"))
    return out


def run(ctx: Ctx) -> Report:
    rep = Report(prop=ID, level="exploration", rule=RULE)
    rep.exhaustive = True
    mods = [m for m in D.walk_version_modules() if m[2] in ("request", "response")]
    counts = {"request": 0, "response": 0}
    for api, version, etype, modname in mods:
        rep.evaluations += 1
        counts[etype] += 1
        c = top_class(modname, etype)
        key = getattr(c, "__api_key__", None)
        rep.nontrivial.add(case_hash((key, version, etype)))
        for sig, msg in check_one(api, version, etype, modname):
            rep.add_failure(Failure(sig, msg, {"api": api, "version": version, "type": etype, "module": modname}, size=len(msg)))
        if len(rep.samples) < 6 and (version == 0 or key in (7, 18)):
            rep.samples.append({"module": modname, "api_key": key, "flexible": getattr(c, "__flexible__", None),
                                "header": f"{c.__header_schema__.__module__}" if c else None})
    rep.extra.update({"request_modules": counts["request"], "response_modules": counts["response"]})
    tot = pins()["totals"]
    if counts["request"] != 323 or counts["response"] != 323:
        rep.add_failure(Failure("module-count", f"found {counts} request/response modules on disk, pinned 323/323", {"counts": counts}))
    rep.assumptions = ["first flexible version and api key per API come from fixtures/kafka-3.9.0-pins.json"]
    return rep


def replay(case):
    if "module" not in case:
        rep = run(Ctx(prop=ID, tier="quick", seed=1))
        return [(f.signature, f.message) for f in rep.failures.values()]
    return check_one(case["api"], case["version"], case["type"], case["module"])
