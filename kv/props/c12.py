"""C12 -- primitive value types denote exactly their wire domains."""

from __future__ import annotations

import datetime
import io
import math

import hypothesis
from hypothesis import HealthCheck, Phase, given, settings
from hypothesis import strategies as st

from ..engine import Ctx, Failure, Report, case_hash
from ..refcodec import EPOCH

ID = "C12"
RULE = (
    "expected membership is computed from a table of the documented closed ranges pinned here (i8..i64, u8..u64, "
    "uvarint 0..2^35-1, uvarlong 0..2^70-1, svarint +-2^34, svarlong +-2^69, f64 = finite floats, i32Timedelta "
    "[-2^31 ms, 2^31-1 ms], i64Timedelta [timedelta.min, timedelta.max-1 day], TZAware = aware datetime, "
    "non-negative instant, whole milliseconds). Values: every integer within +-2 of every limit of every type (cross "
    "product, so nesting is exercised) and +-2^k+-1 magnitudes; floats finite/-0.0/subnormal/max/inf/nan; timedeltas "
    "around both limits of both types at us offsets; datetimes naive/aware in several zones around the epoch and the "
    "upper limit with microsecond in {0,1,999,1000,5000,999000,999999}, and in three daylight-saving zones around their "
    "transitions (both fold twins of the repeated hour, fold set either way, the skipped hour); non-matching Python types. Oracle: "
    "isinstance(v,T)==expected; T(v) is v if expected else TypeError; range nesting; every member of a fixed-width int, "
    "f64, duration or timestamp type is accepted by its writer and reads back equal (durations within 0.5 ms; timestamps "
    "by instant, since aware datetimes of different zones never compare equal when one is fold-ambiguous, PEP 495; members whose "
    "instant lies beyond year 9999 in UTC are the region of an open known finding: membership is asserted, read-back probed). bool for "
    "integer types is recorded, not asserted. Non-trivial = value within one unit of a limit, non-finite float or "
    "wrong-typed value; distinct by (type, value)."
)

INT_TYPES = {
    "i8": (-(2**7), 2**7 - 1), "i16": (-(2**15), 2**15 - 1), "i32": (-(2**31), 2**31 - 1), "i64": (-(2**63), 2**63 - 1),
    "u8": (0, 2**8 - 1), "u16": (0, 2**16 - 1), "u32": (0, 2**32 - 1), "u64": (0, 2**64 - 1),
    "uvarint": (0, 2**35 - 1), "uvarlong": (0, 2**70 - 1),
    "svarint": (-(2**34), 2**34 - 1), "svarlong": (-(2**69), 2**69 - 1),
}
FIXED_CODEC = {"i8": "int8", "i16": "int16", "i32": "int32", "i64": "int64", "u8": "uint8", "u16": "uint16", "u32": "uint32", "u64": "uint64"}
NESTING = [("i8", "i16"), ("i16", "i32"), ("i32", "i64"), ("u8", "u16"), ("u16", "u32"), ("u32", "u64")]
US = datetime.timedelta(microseconds=1)
MS = datetime.timedelta(milliseconds=1)
TD32 = (datetime.timedelta(milliseconds=-(2**31)), datetime.timedelta(milliseconds=2**31 - 1))
TD64 = (datetime.timedelta.min, datetime.timedelta.max - datetime.timedelta(days=1))


def P():
    from kio.static import primitive

    return primitive


class T:
    def __init__(self):
        self.evals = 0
        self.nontrivial = set()
        self.failures = {}
        self.bool_as_int = {}
        self.known = None

    def fail(self, sig, msg, case):
        if sig not in self.failures or len(msg) < len(self.failures[sig][0]):
            self.failures[sig] = (msg, case)


def membership(t: T, tname: str, v, expected: bool, boundary: bool):
    typ = getattr(P(), tname)
    t.evals += 1
    if boundary:
        t.nontrivial.add(case_hash((tname, repr(v))))
    case = {"type": tname, "value": repr(v)}
    try:
        got = isinstance(v, typ)
    except Exception as e:
        t.fail(f"{tname}:isinstance-raised:{type(e).__name__}", f"isinstance({v!r}, {tname}) raised {e!r}", case)
        return
    if got is not expected:
        t.fail(f"{tname}:isinstance-{'rejects-member' if expected else 'accepts-non-member'}",
               f"isinstance({v!r}, {tname}) = {got}, documented domain says {expected}", case)
    for how, call in (("call", typ), ("parse", typ.parse)):
        try:
            res = call(v)
        except TypeError:
            if expected:
                t.fail(f"{tname}:{how}-rejects-member", f"{tname}.{how}({v!r}) raised TypeError for a member", case)
        except Exception as e:
            t.fail(f"{tname}:{how}-wrong-error:{type(e).__name__}", f"{tname}.{how}({v!r}) raised {e!r}, expected TypeError", case)
        else:
            if not expected:
                t.fail(f"{tname}:{how}-accepts-non-member", f"{tname}.{how}({v!r}) returned {res!r} instead of raising TypeError", case)
            elif res is not v:
                t.fail(f"{tname}:{how}-not-identity", f"{tname}.{how}({v!r}) returned a different object {res!r}", case)


def roundtrip(t: T, kind: str, v, tol=None):
    from kio.serial import readers as R
    from kio.serial import writers as W

    t.evals += 1
    case = {"codec": kind, "value": repr(v)}
    w, r = getattr(W, f"write_{kind}"), getattr(R, f"read_{kind}")
    buf = io.BytesIO()
    try:
        w(buf, v)
    except Exception as e:
        t.fail(f"{kind}:writer-rejects-member:{type(e).__name__}", f"write_{kind}({v!r}) raised {e!r} for a member of the type", case)
        return
    buf.seek(0)
    try:
        back = r(buf)
    except Exception as e:
        t.fail(f"{kind}:reader-raised:{type(e).__name__}", f"read_{kind} of write_{kind}({v!r}) raised {e!r}", case)
        return
    if tol is not None:
        ok = abs(back - v) <= tol
    elif isinstance(v, datetime.datetime):
        # by instant: aware datetimes of different zones compare unequal whenever one of them is fold-ambiguous (PEP 495)
        utc = datetime.timezone.utc
        ok = isinstance(back, datetime.datetime) and back.tzinfo is not None and back.astimezone(utc) == v.astimezone(utc)
    elif isinstance(v, float):
        ok = isinstance(back, float) and (back == v) and math.copysign(1, back) == math.copysign(1, v)
    else:
        ok = back == v
    if not ok:
        t.fail(f"{kind}:member-does-not-read-back", f"write_{kind}({v!r}) read back as {back!r}", case)


def int_values() -> list[int]:
    vals = set()
    for lo, hi in INT_TYPES.values():
        for lim in (lo, hi):
            for d in range(-2, 3):
                vals.add(lim + d)
    for k in range(0, 72):
        for d in (-1, 0, 1):
            vals.add(2**k + d)
            vals.add(-(2**k) + d)
    return sorted(vals)


class _NoneOffset(datetime.tzinfo):
    def utcoffset(self, dt):
        return None

    def tzname(self, dt):
        return "none"

    def dst(self, dt):
        return None


def section_ints(t: T, ctx: Ctx):
    limits = {lim for lo, hi in INT_TYPES.values() for lim in (lo, hi)}
    vals = int_values()
    for v in vals:
        near = any(abs(v - lim) <= 1 for lim in limits)
        for tname, (lo, hi) in INT_TYPES.items():
            exp = lo <= v <= hi
            membership(t, tname, v, exp, near)
            if exp and tname in FIXED_CODEC:
                roundtrip(t, FIXED_CODEC[tname], v)
        for small, big in NESTING:
            t.evals += 1
            if isinstance(v, getattr(P(), small)) and not isinstance(v, getattr(P(), big)):
                t.fail(f"nesting:{small}-not-in-{big}", f"{v} is an {small} but not an {big}", {"type": small, "value": repr(v)})
    for small, big in NESTING:
        t.evals += 1
        if not issubclass(getattr(P(), small), getattr(P(), big)):
            t.fail(f"nesting:class:{small}-{big}", f"{small} is not a subclass of {big}", {"type": small})
    # wrong Python types
    for tname in INT_TYPES:
        for wrong in (1.0, 0.0, "1", b"\x01", None, 1 + 0j, [1], float("nan")):
            membership(t, tname, wrong, False, True)
        for b in (True, False):
            t.bool_as_int[f"{tname}:{b}"] = isinstance(b, getattr(P(), tname))
    n = 1500 if ctx.quick else 6000

    @hypothesis.seed(ctx.subseed("ints"))
    @settings(max_examples=n, database=None, deadline=None, phases=[Phase.generate], suppress_health_check=list(HealthCheck))
    @given(st.integers(-(2**72), 2**72), st.sampled_from(sorted(INT_TYPES)))
    def run(v, tname):
        lo, hi = INT_TYPES[tname]
        membership(t, tname, v, lo <= v <= hi, False)
        if lo <= v <= hi and tname in FIXED_CODEC:
            roundtrip(t, FIXED_CODEC[tname], v)

    run()


def section_floats(t: T, ctx: Ctx):
    finite = [0.0, -0.0, 1.0, -1.5, 5e-324, -5e-324, 2.2250738585072014e-308, 1.7976931348623157e308, -1.7976931348623157e308, 0.1, 1e300]
    for v in finite:
        membership(t, "f64", v, True, abs(v) in (5e-324, 1.7976931348623157e308) or v == 0.0)
        roundtrip(t, "float64", v)
    for v in (math.inf, -math.inf, math.nan, -math.nan):
        membership(t, "f64", v, False, True)
    for wrong in (1, 0, True, "1.0", None, b"", 1 + 0j):
        membership(t, "f64", wrong, False, True)
    n = 1500 if ctx.quick else 6000

    @hypothesis.seed(ctx.subseed("floats"))
    @settings(max_examples=n, database=None, deadline=None, phases=[Phase.generate], suppress_health_check=list(HealthCheck))
    @given(st.floats())
    def run(v):
        fin = math.isfinite(v)
        membership(t, "f64", v, fin, not fin)
        if fin:
            roundtrip(t, "float64", v)

    run()


def section_durations(t: T, ctx: Ctx):
    offs = [datetime.timedelta(0), US, -US, 499 * US, 500 * US, 501 * US, -500 * US, MS, -MS, MS + US, MS - US, 999 * US]
    for tname, (lo, hi), kind in (("i32Timedelta", TD32, "timedelta_i32"), ("i64Timedelta", TD64, "timedelta_i64")):
        cands = set()
        for lim in (lo, hi, datetime.timedelta(0), *TD32):
            for o in offs:
                try:
                    cands.add(lim + o)
                except OverflowError:
                    pass
        for ms in (2**53, 2**53 + 1, -(2**53) - 1, 2**40, -(2**40), 86_400_000):
            for o in (datetime.timedelta(0), 400 * US, -600 * US):
                try:
                    cands.add(datetime.timedelta(milliseconds=ms) + o)
                except OverflowError:
                    pass
        cands |= {datetime.timedelta.min, datetime.timedelta.max, datetime.timedelta.max - US, datetime.timedelta.max - datetime.timedelta(days=1) + US}
        for v in sorted(cands):
            exp = lo <= v <= hi
            near = any(abs((v // US) - (lim // US)) <= 1000 for lim in (lo, hi))
            membership(t, tname, v, exp, near)
            if exp:
                roundtrip(t, kind, v, tol=500 * US)
        for wrong in (0, 1.0, "1", None, datetime.datetime(2020, 1, 1), datetime.date(2020, 1, 1)):
            membership(t, tname, wrong, False, True)
        n = 1500 if ctx.quick else 6000
        lo_us, hi_us = lo // US, hi // US

        @hypothesis.seed(ctx.subseed("td", tname))
        @settings(max_examples=n, database=None, deadline=None, phases=[Phase.generate], suppress_health_check=list(HealthCheck))
        @given(st.one_of(st.integers(lo_us, hi_us), st.integers(-(2**62), 2**62)))
        def run(us):
            try:
                v = datetime.timedelta(microseconds=us)
            except OverflowError:
                return
            exp = lo <= v <= hi
            membership(t, tname, v, exp, False)
            if exp:
                roundtrip(t, kind, v, tol=500 * US)

        run()


FINDING_ID = "K-C12-timestamps-beyond-year-9999"


def far_probe(t: T, v) -> None:
    """v: a TZAware member whose instant lies beyond datetime.max in UTC.  The writer must accept it (it is a member and
    fits int64 milliseconds).  Reading back either yields the same instant (finding gone - nothing printed) or raises
    OutOfBoundValue (the listed finding); anything else is a violation."""
    from kio.serial import errors as E
    from kio.serial import readers as R
    from kio.serial import writers as W

    for kind in ("datetime_i64", "nullable_datetime_i64"):
        t.evals += 1
        case = {"codec": kind, "value": repr(v)}
        buf = io.BytesIO()
        try:
            getattr(W, f"write_{kind}")(buf, v)
        except Exception as e:
            t.fail(f"{kind}:writer-rejects-member:{type(e).__name__}", f"write_{kind}({v!r}) raised {e!r} for a member of the type", case)
            continue
        want_ms = (v - EPOCH) // MS
        if int.from_bytes(buf.getvalue(), "big", signed=True) != want_ms:
            t.fail(f"{kind}:member-written-wrong", f"write_{kind}({v!r}) wrote {buf.getvalue().hex()}, expected {want_ms} ms", case)
            continue
        buf.seek(0)
        try:
            back = getattr(R, f"read_{kind}")(buf)
        except E.OutOfBoundValue:
            t.known = f"write_{kind}({v!r}) = {want_ms} ms is accepted (the value is a TZAware member), read_{kind} of those bytes raises OutOfBoundValue"
            continue
        except Exception as e:
            t.fail(f"{kind}:reader-raised:{type(e).__name__}", f"read_{kind} of write_{kind}({v!r}) raised {e!r}", case)
            continue
        if not (isinstance(back, datetime.datetime) and back.tzinfo is not None and (back - EPOCH) // MS == want_ms):
            t.fail(f"{kind}:member-does-not-read-back", f"write_{kind}({v!r}) read back as {back!r}", case)


def _ts_expected(v) -> bool:
    if not isinstance(v, datetime.datetime):
        return False
    if v.tzinfo is None or v.tzinfo.utcoffset(v) is None:
        return False
    return v.microsecond % 1000 == 0 and (v - EPOCH) >= datetime.timedelta(0)


def section_timestamps(t: T, ctx: Ctx):
    zones = [datetime.timezone.utc, datetime.timezone(datetime.timedelta(hours=5, minutes=30)),
             datetime.timezone(datetime.timedelta(hours=-11)), datetime.timezone(datetime.timedelta(minutes=1)),
             datetime.timezone(datetime.timedelta(seconds=2670)), datetime.timezone(datetime.timedelta(seconds=-1)),  # not whole minutes
             # not whole seconds (whole milliseconds, so that "local microsecond % 1000 == 0" still means a whole-ms instant):
             # the local sub-second digits differ from those of the instant
             datetime.timezone(datetime.timedelta(minutes=30, milliseconds=500)), datetime.timezone(datetime.timedelta(milliseconds=-1)),
             datetime.timezone(datetime.timedelta(hours=-3, milliseconds=999))]
    anchors = [EPOCH, EPOCH + datetime.timedelta(seconds=1), datetime.datetime(2024, 1, 1, tzinfo=datetime.timezone.utc),
               datetime.datetime(2038, 1, 19, 3, 14, 7, tzinfo=datetime.timezone.utc),
               datetime.datetime.max.replace(tzinfo=datetime.timezone.utc, microsecond=0),
               datetime.datetime(1969, 12, 31, 23, 59, 59, tzinfo=datetime.timezone.utc),
               datetime.datetime(1, 1, 2, tzinfo=datetime.timezone.utc)]
    micros = [0, 1, 999, 1000, 5000, 999000, 999999]
    cands = []
    for a in anchors:
        for us in micros:
            base = a.replace(microsecond=us)
            for z in zones:
                try:
                    cands.append(base.astimezone(z))
                except OverflowError:
                    pass
            cands.append(base.replace(tzinfo=None))  # naive
            cands.append(base.replace(tzinfo=_NoneOffset()))
    cands += [EPOCH - US, EPOCH - MS, EPOCH + MS, EPOCH + US]
    # the ends of Python's datetime range, written in UTC offsets that put the INSTANT outside years 1..9999 (built
    # directly - astimezone() cannot produce them): at the low end plain non-members (instant before the epoch) ...
    tzp, tzm = datetime.timezone(datetime.timedelta(hours=1)), datetime.timezone(datetime.timedelta(hours=-1))
    cands += [datetime.datetime.min.replace(tzinfo=tzp), datetime.datetime(1, 1, 1, 0, 30, tzinfo=tzp),
              datetime.datetime.min.replace(tzinfo=datetime.timezone(datetime.timedelta(hours=14))),
              datetime.datetime.min.replace(tzinfo=tzm), datetime.datetime(1, 1, 1, 0, 0, 0, 1000, tzinfo=tzp)]
    # ... and at the high end members (aware, whole milliseconds, non-negative instant) whose instant lies beyond
    # 9999-12-31T23:59:59.999Z.  Membership is asserted; whether they read back is the region of an open known finding
    far = [datetime.datetime(9999, 12, 31, 23, 30, tzinfo=tzm), datetime.datetime.max.replace(microsecond=999000, tzinfo=tzm),
           datetime.datetime(9999, 12, 31, 12, 0, tzinfo=datetime.timezone(datetime.timedelta(hours=-14))),
           datetime.datetime.max.replace(microsecond=999000, tzinfo=datetime.timezone(datetime.timedelta(minutes=-1)))]
    for v in far:
        membership(t, "TZAware", v, True, True)
        far_probe(t, v)
    # zones with daylight saving time: instants around each transition (both fold twins of the repeated hour, the skipped
    # hour, the same local day with the other offset), as astimezone() and datetime.now(zone) produce them, and the same
    # wall-clock fields with fold 0 and fold 1 set explicitly
    import zoneinfo

    from ..kioapi import DST_TRANSITIONS

    dst_zones = []
    n_fold = 0
    for zone, ts in DST_TRANSITIONS.items():
        try:
            z = zoneinfo.ZoneInfo(zone)
        except Exception:
            continue
        dst_zones.append(z)
        for t0 in ts:
            for d_ms in (0, 1, -1, 900000, -900000, 1800000, -1800000, 3599999, -3599999, 3600000, -3600000, 10800000, -10800000, 1799999):
                for us in (0, 1, 1000):
                    v = (EPOCH + datetime.timedelta(milliseconds=t0 + d_ms, microseconds=us)).astimezone(z)
                    cands.append(v)
                    cands.append(v.replace(fold=1 - v.fold))
                    n_fold += v.fold
    t.dst_candidates = n_fold
    for v in cands:
        exp = _ts_expected(v)
        aware = v.tzinfo is not None and v.tzinfo.utcoffset(v) is not None
        near = (not aware) or abs(v - EPOCH) <= MS or v.microsecond not in (0,) or v.year == 9999
        membership(t, "TZAware", v, exp, near)
        if exp:
            roundtrip(t, "datetime_i64", v)
            roundtrip(t, "nullable_datetime_i64", v)
    for wrong in (0, 0.0, "2024-01-01", None, datetime.date(2024, 1, 1), datetime.timedelta(0)):
        membership(t, "TZAware", wrong, False, True)
    n = 1500 if ctx.quick else 6000

    @hypothesis.seed(ctx.subseed("ts"))
    @settings(max_examples=n, database=None, deadline=None, phases=[Phase.generate], suppress_health_check=list(HealthCheck))
    @given(st.integers(-(10**12), 253402300799999999), st.sampled_from([1, 1000, 1000, 1000000]), st.sampled_from(zones + dst_zones + [None]))
    def run(us, grain, zone):
        us -= us % grain
        try:
            v = EPOCH + datetime.timedelta(microseconds=us)
            v = v.replace(tzinfo=None) if zone is None else v.astimezone(zone)
        except OverflowError:
            return
        exp = _ts_expected(v)
        membership(t, "TZAware", v, exp, v.microsecond % 1000 != 0 or zone is None)
        if exp:
            roundtrip(t, "datetime_i64", v)

    run()


def run(ctx: Ctx) -> Report:
    rep = Report(prop=ID, level="exploration", rule=RULE)
    t = T()
    for sec in (section_ints, section_floats, section_durations, section_timestamps):
        sec(t, ctx)
    rep.evaluations = t.evals
    rep.nontrivial = t.nontrivial
    for sig, (msg, case) in t.failures.items():
        rep.add_failure(Failure(sig, msg, case, len(msg)))
    rep.extra["bool_as_int_recorded_not_asserted"] = t.bool_as_int
    from ..engine import open_findings

    if t.known:
        if FINDING_ID in open_findings(ID):
            rep.known_hits[FINDING_ID] = t.known
        else:  # the defect reproduces but is not listed as open: a violation, not a known finding
            rep.add_failure(Failure("datetime_i64:member-beyond-year-9999-does-not-read-back", t.known, {"codec": "datetime_i64"}, 1))
    rep.extra["excluded_region"] = {
        "what": "TZAware members whose instant lies beyond 9999-12-31T23:59:59.999Z (reachable only with a negative UTC offset within the "
                "last day of year 9999) are not part of the main read-back search; 4 such values are probed (8 codec calls)",
    }
    rep.samples = [
        {"type": "i16", "value": 32768, "expected_member": False},
        {"type": "TZAware", "value": "1970-01-01T00:00:00.001+00:00", "expected_member": True},
        {"type": "TZAware", "value": "2024-01-01T00:00:00.000001+00:00", "expected_member": False},
        {"type": "i32Timedelta", "value": "2^31-1 ms + 1 us", "expected_member": False},
        {"type": "f64", "value": "-inf", "expected_member": False},
    ]
    rep.assumptions = [
        "documented ranges are those of the primitive.py docstrings/definitions at the pinned commit, pinned in this file",
        "timestamp precision is milliseconds, as the property and the TZAware docstring headline state",
    ]
    return rep


def replay(case):
    rep = run(Ctx(prop=ID, tier="quick", seed=1))
    return [(f.signature, f.message) for f in rep.failures.values()]
