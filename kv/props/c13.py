"""C13 -- every entity's self-description is coherent (exhaustive over classes x fields)."""

from __future__ import annotations

import dataclasses
import datetime
import typing
import uuid

from .. import describe as D
from ..engine import Ctx, Failure, Report, case_hash, pool_map
from ..refcodec import default_value, implicit_zero, py_equal, to_entity, zero_tree

ID = "C13"
RULE = (
    "exhaustive: all entity classes found on disk x all their fields, read through kv.describe (own reflection). "
    "Rules per field: kafka_type is a known primitive and names the declared Python type (int8->i8 ... string->str or a "
    "kio.schema.types subclass, records->Records, uuid->uuid.UUID|None, error_code->ErrorCode, timedelta_i32/_i64, "
    "datetime_i64->TZAware); struct fields carry no kafka_type and reference a dataclass of the same module; nullable "
    "only for string/bytes/records/uuid/datetime_i64/arrays/structs; arrays are tuple[X, ...] with non-Optional elements (except uuid, whose zero value kio models as None); explicit defaults "
    "inhabit the declared type (None only if nullable, () only for arrays); tags are unique non-negative ints, only "
    "on flexible classes, each with an explicit or derivable default; class vars present. Per class: entity_reader and "
    "entity_writer build, the all-zero instance and the defaults-only instance round-trip, and the raw field descriptions "
    "(type, default, metadata) read the same before and after that use. Non-trivial: every "
    "field; distinct = (class, field)."
)


def _expected_type(kind: str):
    from kio.schema.errors import ErrorCode
    from kio.static import primitive as P

    return {
        "int8": P.i8, "int16": P.i16, "int32": P.i32, "int64": P.i64,
        "uint8": P.u8, "uint16": P.u16, "uint32": P.u32, "uint64": P.u64,
        "float64": P.f64, "bool": bool, "string": str, "bytes": bytes, "records": P.Records,
        "uuid": uuid.UUID, "error_code": ErrorCode, "timedelta_i32": P.i32Timedelta,
        "timedelta_i64": P.i64Timedelta, "datetime_i64": P.TZAware,
    }[kind]


def _type_matches(pytype, want) -> bool:
    if pytype is want:
        return True
    # custom entity types (BrokerId(i32), TopicName(str), ...) must derive *directly* from the primitive
    return (
        isinstance(pytype, type)
        and getattr(pytype, "__module__", "") == "kio.schema.types"
        and want in pytype.__bases__
    )


def _inhabits(value, f: D.FieldDesc) -> bool:
    if f.array:
        return isinstance(value, tuple) and all(_inhabits_item(v, f) for v in value)
    return _inhabits_item(value, f)


def _inhabits_item(value, f: D.FieldDesc) -> bool:
    if f.kind == "struct":
        return type(value) is f.struct.cls
    want = f.pytype
    if f.kind == "bool":
        return type(value) is bool
    try:
        return isinstance(value, want) and not (isinstance(value, bool) and f.kind != "bool")
    except TypeError:
        return False


def check_class(path: str) -> tuple[int, list, list]:
    """-> (n_fields, [(sig,msg)], [field ids])"""
    cls = D.resolve(path)
    out = []
    try:
        cd = D.describe(cls)
    except D.DescribeError as e:
        return 0, [("undescribable", f"{path}: {e}")], []
    except Exception as e:
        return 0, [(f"undescribable:{type(e).__name__}", f"{path}: {e!r}")], []
    # class variables
    from kio.static.constants import EntityType

    if not isinstance(getattr(cls, "__type__", None), EntityType):
        out.append(("classvar:__type__", f"{path}: __type__ = {getattr(cls, '__type__', None)!r}"))
    v = getattr(cls, "__version__", None)
    if isinstance(v, bool) or not isinstance(v, int) or not 0 <= v <= 32767:
        out.append(("classvar:__version__", f"{path}: __version__ = {v!r}"))
    if type(getattr(cls, "__flexible__", None)) is not bool:
        out.append(("classvar:__flexible__", f"{path}: __flexible__ = {getattr(cls, '__flexible__', None)!r}"))
    tags = {}
    ids = []
    for f in cd.fields:
        fid = f"{path}.{f.name}"
        ids.append(fid)
        if f.kind != "struct":
            if f.kind not in D.PRIMITIVE_KINDS:
                out.append(("unknown-kafka-type", f"{fid}: kafka_type {f.kind!r}"))
                continue
            want = _expected_type(f.kind)
            if not _type_matches(f.pytype, want):
                out.append((f"type-vs-kafka-type:{f.kind}", f"{fid}: kafka_type {f.kind} but annotated {f.pytype!r}"))
            if f.kind == "uuid" and not (f.item_nullable if f.array else f.nullable):
                out.append(("uuid-not-optional", f"{fid}: uuid fields are UUID | None (zero means null)"))
        else:
            if f.struct.cls.__module__ != cls.__module__:
                out.append(("struct-from-other-module", f"{fid}: refers to {f.struct.path}"))
        null_ok = f.array or f.kind == "struct" or f.kind in D.NULLABLE_KINDS
        if f.nullable and not null_ok:
            out.append((f"nullable-without-wire-null:{f.kind}", f"{fid}: {f.kind} has no wire-level null"))
        if f.array and f.item_nullable and f.kind != "uuid":
            # Kafka arrays have no per-element null form (the element codecs are the non-nullable ones); the only
            # Optional elements kio declares are uuids, whose all-zero value it models as None
            out.append((f"nullable-item-without-wire-null:{f.kind}", f"{fid}: elements declared Optional, but array elements of kind {f.kind} have no null form on the wire"))
        if f.has_default:
            d = f.default
            if d is None:
                if not f.nullable:
                    out.append((f"default-none-not-nullable:{f.kind}", f"{fid}: default None but not nullable"))
            elif f.array:
                if not isinstance(d, tuple):
                    out.append(("array-default-not-tuple", f"{fid}: default {d!r}"))
                elif not _inhabits(d, f):
                    out.append(("default-not-in-type", f"{fid}: default {d!r}"))
            else:
                if isinstance(d, tuple):
                    out.append(("tuple-default-on-scalar", f"{fid}: default {d!r}"))
                elif not _inhabits(d, f):
                    out.append((f"default-not-in-type:{f.kind}", f"{fid}: default {d!r} is not an instance of {f.pytype!r}"))
        if f.tag is not None:
            if isinstance(f.tag, bool) or not isinstance(f.tag, int) or f.tag < 0:
                out.append(("bad-tag", f"{fid}: tag {f.tag!r}"))
            elif f.tag in tags:
                out.append(("duplicate-tag", f"{fid}: tag {f.tag} also used by {tags[f.tag]}"))
            else:
                tags[f.tag] = f.name
            if not cd.flexible:
                out.append(("tag-on-non-flexible", f"{fid}: tag {f.tag} on a non-flexible class"))
            try:
                dv = default_value(f)
                if dv is not None and not _inhabits(dv, f) and not f.has_default:
                    out.append(("derived-default-not-in-type", f"{fid}: {dv!r}"))
                if f.array and not f.has_default:
                    out.append(("tagged-array-without-default", f"{fid}"))
                if f.nullable and not f.has_default:
                    out.append(("tagged-nullable-without-default", f"{fid}"))
            except Exception as e:
                out.append(("no-resolvable-default", f"{fid}: {e!r}"))
            # kio's own resolution must agree with the Kafka rule
            try:
                from kio.serial._implicit_defaults import get_tagged_field_default

                kf = next(x for x in dataclasses.fields(cls) if x.name == f.name)
                kd = get_tagged_field_default(kf)
                if not py_equal(kd, default_value(f)) and not (f.kind == "uuid" and kd is not None and kd.int == 0):
                    out.append(("implicit-default-disagrees", f"{fid}: kio resolves {kd!r}, Kafka rule gives {default_value(f)!r}"))
                if f.kind == "struct" and not f.array and kd is not None and type(kd) is not f.pytype:
                    out.append(("implicit-default-not-in-type", f"{fid}: kio resolves an instance of {type(kd).__module__}.{type(kd).__qualname__}, "
                                f"declared is {f.pytype.__module__}.{f.pytype.__qualname__}"))
            except Exception as e:
                out.append((f"kio-default-resolution-raised:{type(e).__name__}", f"{fid}: {e!r}"))
    # reader / writer derivable, default-only and zero instance round-trip; the description is a constant of the class, so
    # it must read the same after codecs were derived from it and used (snapshot of the raw dataclass fields, nested too)
    before = _raw_snapshot(cls)
    try:
        from .. import kioapi as K

        K.entity_writer(cls)
        K.entity_reader(cls)
        K.entity_writer(cls, True)
        K.entity_reader(cls, True)
    except Exception as e:
        out.append((f"codec-not-derivable:{type(e).__name__}", f"{path}: {e!r}"))
        return len(cd.fields), out, ids
    for label, tree in (("zero", zero_tree(cd)), ("zero-present", zero_tree(cd, absent_tags=False))):
        try:
            x = to_entity(cd, tree)
            b = K.encode(cls, x)
            y, used = K.decode(cls, b)
            if not py_equal(x, y) or used != len(b):
                out.append((f"{label}-instance-roundtrip", f"{path}: {x!r} -> {b.hex()} -> {y!r} (used {used})"))
        except Exception as e:
            out.append((f"{label}-instance-roundtrip-raised:{type(e).__name__}", f"{path}: {e!r}"))
    if all(f.has_default for f in cd.fields):
        try:
            x = cls()
            y, used = K.decode(cls, K.encode(cls, x))
            if x != y:
                out.append(("defaults-only-roundtrip", f"{path}: {x!r} != {y!r}"))
        except Exception as e:
            out.append((f"defaults-only-roundtrip-raised:{type(e).__name__}", f"{path}: {e!r}"))
    after = _raw_snapshot(cls)
    if after != before:
        diff = [f"{a[0]}: {a[1:]} -> {b[1:]}" for a, b in zip(before, after) if a != b][:3]
        out.append(("description-changed-by-use", f"{path}: the field descriptions differ after deriving and using reader/writer: {diff}"))
    return len(cd.fields), out, ids


def _raw_snapshot(cls, depth: int = 0) -> tuple:
    """(qualified field name, repr of type, repr of default, repr of default_factory, sorted metadata) for every field,
    nested dataclasses included - read straight from dataclasses.fields, not through kv.describe's cache."""
    rows = []
    for f in dataclasses.fields(cls):
        rows.append((f"{cls.__qualname__}.{f.name}", repr(f.type), repr(f.default), repr(f.default_factory),
                     tuple(sorted((str(k), repr(v)) for k, v in f.metadata.items()))))
        if depth < 4:
            for arg in _dataclass_args(f.type):
                rows.extend(_raw_snapshot(arg, depth + 1))
    return tuple(rows)


def _dataclass_args(tp):
    if dataclasses.is_dataclass(tp) and isinstance(tp, type):
        yield tp
        return
    for a in typing.get_args(tp):
        yield from _dataclass_args(a)


def _work(paths):
    return [(p,) + check_class(p) for p in paths]


def run(ctx: Ctx) -> Report:
    rep = Report(prop=ID, level="exploration", rule=RULE)
    rep.exhaustive = True
    paths = [f"{c.__module__}:{c.__qualname__}" for c in D.all_classes()]
    chunks = [paths[i::32] for i in range(32)]
    n_fields = 0
    for chunk in pool_map(_work, chunks):
        for path, nf, fails, ids in chunk:
            n_fields += nf
            rep.evaluations += max(nf, 1)
            for fid in ids:
                rep.nontrivial.add(case_hash(fid))
            for sig, msg in fails:
                rep.add_failure(Failure(sig, msg, {"class": path}, len(msg)))
    # all tagged struct fields once more in ONE process (the shards above split same-named classes of different versions
    # over 32 processes): what kio resolves as implicit default must be an instance of the DECLARED class, whichever classes
    # were resolved before
    for tag_path in paths:
        cd = D.describe(D.resolve(tag_path))
        for f in cd.fields:
            if f.tag is None or f.kind != "struct" or f.array or f.has_default:
                continue
            try:
                from kio.serial._implicit_defaults import get_tagged_field_default

                kf = next(x for x in dataclasses.fields(cd.cls) if x.name == f.name)
                kd = get_tagged_field_default(kf)
            except Exception:
                continue  # reported per class above
            rep.evaluations += 1
            if kd is not None and type(kd) is not f.pytype:
                rep.add_failure(Failure("implicit-default-not-in-type",
                                        f"{tag_path}.{f.name}: after resolving other classes' defaults in the same process kio resolves an instance of "
                                        f"{type(kd).__module__}.{type(kd).__qualname__}, declared is {f.pytype.__module__}.{f.pytype.__qualname__}",
                                        {"class": None}))
    rep.extra["classes"] = len(paths)
    rep.extra["fields"] = n_fields
    rep.samples = [
        {"class": p, "fields": [f"{f.name}:{f.kind}{'?' if f.nullable else ''}{'[]' if f.array else ''}"
                                f"{'#' + str(f.tag) if f.tag is not None else ''}" for f in D.describe(D.resolve(p)).fields]}
        for p in paths[:: max(1, len(paths) // 5)][:5]
    ]
    from ..pins import pins

    tot = pins()["totals"]
    if len(paths) != tot["classes"] or n_fields != tot["fields"]:
        rep.add_failure(Failure("totals-vs-pins", f"{len(paths)} classes / {n_fields} fields on disk, pinned {tot['classes']} / {tot['fields']}", {"class": None}))
    rep.assumptions = ["kio's convention that uuid fields are always Optional (zero <-> None) is taken as the declared representation"]
    return rep


def replay(case):
    if not case.get("class"):
        rep = run(Ctx(prop=ID, tier="quick", seed=1))
        return [(f.signature, f.message) for f in rep.failures.values()]
    return check_class(case["class"])[1]
