"""C05 -- decoding is lossless: decode->encode reproduces canonical bytes; idempotence."""

from __future__ import annotations

import io

from .. import kioapi as K
from ..engine import Ctx, Report
from ..refcodec import canonicalize, ref_encode
from ..strategies import WIRE_CONFORMING
from ..treeprop import TreeSpec, run_tree_property

ID = "C05"


def _reencode(cd, b: bytes, what: str):
    """-> (bytes, None) or (None, failure)."""
    try:
        v, used = K.decode(cd.cls, b)
    except Exception as e:
        return None, (f"{what}:decode-raised:{K.exc_signature(e)}", f"{cd.path}: decoding {b.hex()} raised {e!r}")
    try:
        return K.encode(cd.cls, v), None
    except Exception as e:
        return None, (f"{what}:reencode-raised:{K.exc_signature(e)}",
                      f"{cd.path}: decoder returned {v!r} for {b.hex()} but the encoder raised {e!r}")


def tolerated_variant(cd, tree):
    """-> (relaxed description, tree, changed): every EMPTY array in a non-nullable array field replaced by a null array.
    Not conforming, but kio's decoder accepts it (it returns None for a null array in any array field), which makes it
    "accepted input" in the sense of the property's second and third sentence."""
    from ..c19_orders import relaxed
    from ..refcodec import Present

    changed = False

    def walk(c, t):
        nonlocal changed
        out = {}
        for k, v in t.items():
            f = next((x for x in c.fields if x.name == k), None)
            if f is None:  # the unknown-tags entry
                out[k] = v
                continue
            inner = v.value if isinstance(v, Present) else v
            wrap = (lambda x: Present(x)) if isinstance(v, Present) else (lambda x: x)
            if f.array and not f.nullable and inner == []:
                changed = True
                out[k] = wrap(None)
            elif f.kind == "struct" and isinstance(inner, dict):
                out[k] = wrap(walk(f.struct, inner))
            elif f.kind == "struct" and isinstance(inner, list):
                out[k] = wrap([walk(f.struct, i) for i in inner])
            else:
                out[k] = v
        return out

    t2 = walk(cd, tree)
    return relaxed(cd), t2, changed


def check(cd, tree, extra):
    out = []
    canon = canonicalize(cd, tree)
    b = ref_encode(cd, canon)
    if len(b) % 6 == 2:
        from ..treeprop import note

        note("preceded_by_failed_decodes", K.failed_decode_prelude(cd))  # earlier messages of this class were cut short
    b2, fail = _reencode(cd, b, "canonical")
    if fail:
        return fail
    if b2 != b:
        from ..refcodec import OffsetMap, first_diff
        from .c02 import _kind_at

        om = OffsetMap()
        ref_encode(cd, canon, om)
        off = first_diff(b2, b)
        path, role = om.locate(off) if off < len(b) else ("<end>", "length")
        out.append((f"canonical-not-reproduced:{role}:{_kind_at(cd, path)}",
                    f"{cd.path}: first difference at {off} ({path})\n input    {b.hex()}\n reencode {b2.hex()}"))
    # idempotence on any accepted input (here: the possibly non-canonical conforming encoding)
    nb = ref_encode(cd, tree)
    b1, fail = _reencode(cd, nb, "accepted")
    if fail:
        out.append(fail)
        return out
    b11, fail = _reencode(cd, b1, "second-pass")
    if fail:
        out.append(fail)
    elif b11 != b1:
        out.append(("not-idempotent", f"{cd.path}: input {nb.hex()}\n pass1 {b1.hex()}\n pass2 {b11.hex()}"))
    # input that is not conforming but tolerated by the decoder: if it is accepted, the result must be encodable and
    # decode->encode must be idempotent on it as well
    rcd, ttree, changed = tolerated_variant(cd, tree)
    if changed:
        from ..refcodec import RefEncodeError
        from ..treeprop import note

        try:
            tb = ref_encode(rcd, ttree)
        except RefEncodeError:
            return out
        try:
            K.decode(cd.cls, tb)
        except Exception:
            note("tolerated_variant_rejected")  # not "accepted input": nothing to demand
            return out
        note("tolerated_variant_accepted")
        t1, fail = _reencode(cd, tb, "tolerated")
        if fail:
            out.append(fail)
            return out
        t11, fail = _reencode(cd, t1, "tolerated-second-pass")
        if fail:
            out.append(fail)
        elif t11 != t1:
            out.append(("tolerated-not-idempotent", f"{cd.path}: input {tb.hex()}\n pass1 {t1.hex()}\n pass2 {t11.hex()}"))
    return out


_NT = {"subsecond_timestamp", "duration_gt_2p53", "float_negzero", "float_nonfinite", "string_ge16383",
       "uuid_zero", "uuid_nonzero", "int_limit"}


def nontrivial(cd, tree, labels, extra):
    return bool(labels & _NT)


def sample_of(cd, tree, extra):
    return {"class": cd.path, "canonical_bytes": ref_encode(cd, canonicalize(cd, tree)).hex()[:400],
            "accepted_noncanonical_bytes": ref_encode(cd, tree).hex()[:400]}


SPEC = TreeSpec(
    prop=ID,
    level="exploration",
    rule=(
        "one Hypothesis run per entity class; each case = wire tree over the full wire domain, biased to values "
        "whose Python representation is lossy-prone (non-zero ms timestamps, |duration|>2^53 ms, -0.0, NaN payloads, "
        "32767-byte strings, zero/non-zero UUIDs, integer limits). (a) canonicalised tree -> reference bytes b -> "
        "kio decode -> kio encode must equal b; (b) the non-canonical conforming encoding of the same tree is "
        "decoded and re-encoded twice: second pass must equal first (idempotence) and no call may raise; (c) a tolerated non-conforming variant (every empty array of a non-nullable array field sent as a null array): if the decoder accepts it, the result must be encodable and idempotent likewise."
        " Non-trivial = tree holds >=1 lossy-prone value; distinct by hash."
    ),
    profile=WIRE_CONFORMING,
    check=check,
    size_sweep=True,
    nontrivial=nontrivial,
    sample_of=sample_of,
    assumptions=("canonical bytes come from kv.refcodec, not from kio",),
    floors={"nontrivial": 0.2},
)


def run(ctx: Ctx) -> Report:
    from ..selftest import run_selftest

    n_vectors = run_selftest()
    rep = run_tree_property(ctx, __name__, SPEC)
    rep.extra["reference_codec_selftest_vectors"] = n_vectors
    return rep


def replay(case):
    from ..treeprop import replay_tree_case

    return replay_tree_case(SPEC, case)
