"""C02 -- encoder output is the Kafka wire format (differential against kv.refcodec)."""

from __future__ import annotations

from .. import kioapi as K
from ..engine import Ctx, Report
from ..refcodec import OffsetMap, first_diff, from_entity, ref_encode, to_entity
from ..strategies import PYTHON_CANONICAL
from ..treeprop import TreeSpec, run_tree_property

ID = "C02"


def check(cd, tree, extra):
    x = to_entity(cd, tree)
    canon = from_entity(cd, x)
    om = OffsetMap()
    expected = ref_encode(cd, canon, om)
    # timestamps are handed to the encoder in a DST-observing zone half of the time (the instant, hence the wire value, is
    # the same; the generated values include both "fold twins" of repeated wall-clock times and both sides of offset changes)
    zone = ("Europe/Paris", "America/New_York", "Australia/Lord_Howe", None, None, None, ("s", 2670), "Africa/Monrovia", None)[len(expected) % 9]
    if zone:
        from .c01 import _rezone

        x = _rezone(x, zone)
    comp = K.dst_companion(x)
    if comp is not None:
        _z, x, mirrored = comp  # encode the mirror image first (other fold twin / other offset on the same local day)
        try:
            K.encode(cd.cls, mirrored)
        except Exception:
            pass
    if len(expected) % 4 == 1:
        # one case in four: the same value is first written to a stream that breaks at its k-th write.  The bytes of the
        # NEXT, successful encode must still be the Kafka encoding (no leftovers of the failed attempt)
        from ..streams import FaultySink, InjectedFault

        try:
            K.entity_writer(cd.cls)(FaultySink(len(expected) % 7, InjectedFault("stream broke")), x)
        except InjectedFault:
            from ..treeprop import note

            note("preceded_by_failed_write")
        except Exception:
            pass  # reported by the real encode below
    try:
        got = K.encode(cd.cls, x)
    except Exception as e:
        return (f"encode-raised:{K.exc_signature(e)}", f"{cd.path}: encoding {x!r} raised {e!r}")
    if got == expected:
        return None
    off = first_diff(got, expected)
    path, role = om.locate(off) if off < len(expected) else ("<end>", "length")
    # generic signature: role + kind of the field where the first difference lies
    kind = _kind_at(cd, path)
    return (
        f"bytes-differ:{role}:{kind}",
        f"{cd.path}: first difference at offset {off} ({path}, {role})\n value    {x!r}\n"
        f" kio      {got.hex()}\n expected {expected.hex()}",
    )


def _kind_at(cd, path: str) -> str:
    parts = [p.split("[")[0] for p in path.split(".")[1:]]
    cur = cd
    kind = "?"
    for p in parts:
        if p.startswith("<"):
            return p
        f = next((f for f in cur.fields if f.name == p), None)
        if f is None:
            return "?"
        kind = f"{f.kind}{',array' if f.array else ''}{',nullable' if f.nullable else ''}{',tagged' if f.tagged else ''}{',flex' if cur.flexible else ''}"
        if f.kind == "struct":
            cur = f.struct
    return kind


_NT = {"array_null", "array_empty", "array_many", "tagged_nondefault_nested", "string_ge126",
       "multibyte_text", "int_limit", "tag_section_ge2", "struct_null", "struct_present"}


def nontrivial(cd, tree, labels, extra):
    return bool(labels & _NT)


def sample_of(cd, tree, extra):
    x = to_entity(cd, tree)
    return {"class": cd.path, "value": repr(x)[:500], "reference_bytes": ref_encode(cd, from_entity(cd, x)).hex()[:400]}


SPEC = TreeSpec(
    prop=ID,
    level="exploration",
    rule=(
        "one Hypothesis run per entity class; each case = canonical instance from a generated wire tree (arrays of 0-3 items and, in 1 of 25 array draws, of 63..1000 items, 16382..16384 for scalars); "
        "(one case in four is preceded by a write of the same value to a sink that raises at its k-th write); oracle: entity_writer output == kv.refcodec.ref_encode (independent implementation of the protocol "
        "guide, KIP-482, KIP-893) byte for byte, first differing offset mapped to a field through the "
        "reference offset map. Non-trivial = null/empty/multi-item array, nested non-default tagged field, "
        "tag section with >=2 entries, nullable struct present/absent, string >=126 bytes, multi-byte text "
        "or integer at a limit; distinct by hash of (class, tree)."
    ),
    profile=PYTHON_CANONICAL,
    check=check,
    size_sweep=True,
    nontrivial=nontrivial,
    sample_of=sample_of,
    assumptions=(
        "trusted base: kv/refcodec.py (my reading of the protocol text), cross-checked against the byte "
        "vectors of tests/serial by kv.selftest",
    ),
    floors={"array_empty": 0.02, "multibyte_text": 0.02, "nontrivial": 0.2},
)


def run(ctx: Ctx) -> Report:
    from ..selftest import run_selftest

    n_vectors = run_selftest()
    rep = run_tree_property(ctx, __name__, SPEC)
    rep.extra["reference_codec_selftest_vectors"] = n_vectors
    return rep


def replay(case):
    from ..treeprop import replay_tree_case

    return replay_tree_case(SPEC, case)
