"""C19 -- readers and writers are stateless: history, failures and threads do not matter."""

from __future__ import annotations

import dataclasses
import io
import json
import os

import hypothesis
from hypothesis import HealthCheck, Phase, given, settings
from hypothesis import strategies as st
from hypothesis.stateful import RuleBasedStateMachine, initialize, invariant, rule, run_state_machine_as_test

from .. import describe as D
from .. import kioapi as K
from ..engine import Ctx, Failure, HarnessError, Report, case_hash, pool_map
from ..refcodec import from_entity, py_equal, ref_encode, to_entity, tree_from_json, tree_to_json
from ..sched import Scheduler, SchedulerStuck
from ..streams import FaultySink, FaultySource, InjectedFault, ReadOnlySource, RecordingSink
from ..strategies import Profile, tree_strategy

ID = "C19"
PROFILE = Profile("history", long_lengths=(126, 127, 128, 129), max_array=2)
RULE = (
    "oracle everywhere: the result of a call equals the result of the same call in a pristine state (caches cleared, "
    "computed before the history starts, and equal to the reference encoding). (1) Histories: Hypothesis "
    "RuleBasedStateMachine over a drawn pool of 4-8 classes (always a flexible request header, a class with tagged "
    "fields and two versions of one API whose classes share names) x 1-3 values; rules: create reader/writer (cold or "
    "warm, cache_clear is a rule; every pool also holds two versions of one same-named tag-bearing class in a drawn order), encode, decode, decode a truncated prefix, decode the pristine bytes with one byte overwritten (usually the last byte of a value, with a UTF-8 lead byte), encode an invalid value (wrong-typed "
    "field so the writer fails part-way), encode an EQUAL TWIN of a pool value (one numeric leaf replaced by an equal value of another type, or 0.0 by -0.0: outcome must equal the cold-cache outcome recorded when the value entered the pool), encode/decode through a stream that raises at call k; invariant after every "
    "step: every pool value still encodes/decodes to its pristine result through the currently cached closures, and "
    "injected exceptions propagate unchanged. (2) Fault positions: for each (class, value) pair ALL k in [0, W) write "
    "calls and [0, R) read calls are injected (exhaustive per pair), bytes written before the fault must be a prefix "
    "of the clean output, and a clean call on the same closure follows. (3) Schedules: 2-3 threads with drawn "
    "create/use programs start from cold caches under a deterministic line-granularity scheduler (sys.settrace in "
    "src/kio, token passing); the interleaving is a drawn list of <=3 preemptions (global step, target thread); "
    "additionally ONE preemption is swept over EVERY step of fixed two/three-thread programs (warm and cold caches, two different values of one class) exhaustively, and EVERY PAIR of preemptions (park thread 0 at k1, park thread 1 at k2, resume 0, then 1) is swept over a warm two-thread program whose values hold multi-item arrays. EVERY PAIR of preemption points is also swept over the COLD construction of two readers by two threads (RequestHeader v2 and a class with compact strings), the closures being used afterwards. One preemption is also swept over the COLD construction-and-use of two values of the SAME class by two threads, for the tag-bearing messages and the classes with nullable struct fields. Additionally one preemption is swept over every step of thread 0 working on class X while thread 1 works on a DIFFERENT class Y (warm encode and decode), for consecutive pairs of a greedy cover of small classes that together contain every field kind (plain, array, tagged), a nullable struct and nested struct arrays. (4) Orders: in 16 (quick) / 48 (thorough) fresh processes the readers and writers of ALL 1629 classes are created and used in a different order (forward, reverse, all nested structs first, all top-level classes first, seeded shuffles); per class up to 12 fixed calls (decode of a populated, a zero, a conforming explicit-default/explicit-null and up to three null-in-non-nullable encodings; encode of the corresponding instances) must have the same outcome (value or exception type) in every order; a difference is bisected to the earlier class that causes it. (5) Repetition: for 40 classes (the 13 tag-bearing messages first; each also goes big/small/big/small through one cached closure, the big value having 9000-byte strings and 400-item tagged arrays) one cached writer and one cached reader are called 10000 (quick) / 300000 (thorough) times each on a populated value; every result must equal the reference encoding / the value; and for 6 classes 70000 (quick) / 600000 (thorough) DISTINCT values (every string, bytes, uuid and wide integer unique) go through one reader/writer pair, each must re-encode to its reference bytes, and the first 64 are decoded again afterwards. In-handler: encode and decode inside an except block, inside a finally block during unwinding and inside __exit__ with an exception. Tagged pairs: every ordered pair of the classes that define tagged fields, X used right before Y. Cross-thread: calls fail part-way (injected I/O errors at several write and read positions) on a thread that stays alive, then another thread encodes and decodes the same value: pristine results required, and a call that makes no progress (same frame and instruction in two samples 2 s apart, after 20 s) is a violation. Volume: while one thread is parked in the middle of a decode, another decodes and encodes a 64 MiB message until more than 2^31 (thorough: 2^32 + 2^30) bytes went each way; every round is compared in full. Non-trivial = history with a failed call "
    "followed by a successful call on the same closure / fault k strictly inside the call / schedule with >=1 "
    "preemption landing inside entity_reader/entity_writer construction or read_entity/write_entity; distinct by hash."
)


class Violation(Exception):
    def __init__(self, sig: str, msg: str):
        super().__init__(msg)
        self.sig = sig
        self.msg = msg


def clear_caches():
    K.entity_reader.cache_clear()
    K.entity_writer.cache_clear()


@dataclasses.dataclass
class Item:
    cd: D.ClassDesc
    tree_json: object
    value: object
    pristine: bytes
    twins: list = dataclasses.field(default_factory=list)  # [(path, twin value, outcome with cold caches)]


def _leaf_paths(value, prefix=(), out=None, limit: int = 48) -> list:
    """Paths to scalar leaves of an entity (dataclass fields; first and last item of tuples)."""
    out = [] if out is None else out
    if len(out) >= limit:
        return out
    if dataclasses.is_dataclass(value) and not isinstance(value, type):
        for f in dataclasses.fields(value):
            _leaf_paths(getattr(value, f.name), prefix + (f.name,), out, limit)
    elif isinstance(value, tuple):
        for idx in sorted({0, len(value) - 1} & set(range(len(value)))):
            _leaf_paths(value[idx], prefix + (idx,), out, limit)
    elif isinstance(value, (bool, int, float)):
        out.append(prefix)
    return out


def _twin_of(v):
    """A value that compares (and hashes) equal to v but is of another type, or is the other zero: its wire form - or
    its being rejected by the writer - must not depend on whether v itself was encoded before."""
    if isinstance(v, bool):
        return int(v)
    if isinstance(v, int):
        f = float(v)
        return f if f == v else None
    if isinstance(v, float):
        if v == 0:
            return -v
        return int(v) if v.is_integer() else None
    return None


def _get_path(value, path):
    for p in path:
        value = value[p] if isinstance(p, int) else getattr(value, p)
    return value


def _replace_path(value, path, new):
    if not path:
        return new
    p = path[0]
    if isinstance(p, int):
        return value[:p] + (_replace_path(value[p], path[1:], new),) + value[p + 1:]
    return dataclasses.replace(value, **{p: _replace_path(getattr(value, p), path[1:], new)})


def _encode_outcome(writer, value) -> str:
    sink = RecordingSink()
    try:
        writer(sink, value)
    except Exception as e:  # noqa: BLE001 - the exception type is the outcome
        return "exc:" + type(e).__name__
    return "ok:" + sink.value().hex()


def make_item(cd: D.ClassDesc, tree) -> Item:
    x = to_entity(cd, tree)
    expected = ref_encode(cd, from_entity(cd, x))
    return Item(cd, tree_to_json(tree), x, expected)


_FIXED_POOL = [
    "kio.schema.request_header.v2.header:RequestHeader",
    "kio.schema.fetch.v15.request:FetchRequest",
    "kio.schema.fetch.v12.response:FetchResponse",
    "kio.schema.fetch.v13.response:FetchResponse",
    "kio.schema.metadata.v5.response:MetadataResponse",
    "kio.schema.metadata.v12.response:MetadataResponse",
]


# --------------------------------------------------------------------------- executor (shared by machine and replay)


class Executor:
    def __init__(self):
        self.items: list[Item] = []
        self.log: list = []
        self.failed_then_ok = False
        self._had_failure_on: set = set()

    # -- helpers
    def _writer(self, item):
        return K.entity_writer(item.cd.cls)

    def _reader(self, item):
        return K.entity_reader(item.cd.cls)

    def verify_all(self, where: str):
        for i, it in enumerate(self.items):
            self.verify(i, where)

    def verify(self, i: int, where: str):
        it = self.items[i]
        try:
            got = K.encode(it.cd.cls, it.value)
        except Exception as e:
            raise Violation(f"history:encode-raised-after:{where}:{K.exc_signature(e)}",
                            f"{it.cd.path}: encoding a pool value raised {e!r} after {self.log[-3:]}")
        if got != it.pristine:
            raise Violation(f"history:encode-differs-after:{where}",
                            f"{it.cd.path}: encoding gives {got.hex()[:200]}, pristine {it.pristine.hex()[:200]} after {self.log[-3:]}")
        # the same through a sink that is not an io.BytesIO (a socket-like object offering write() only)
        sink = RecordingSink()
        try:
            self._writer(it)(sink, it.value)
        except Exception as e:
            raise Violation(f"history:encode-raised-after:{where}:{K.exc_signature(e)}",
                            f"{it.cd.path}: encoding a pool value to a write-only sink raised {e!r} after {self.log[-3:]}")
        if sink.value() != it.pristine:
            raise Violation(f"history:encode-differs-after:{where}:write-only-sink",
                            f"{it.cd.path}: a write-only sink received {sink.value().hex()[:200]}, pristine {it.pristine.hex()[:200]} after {self.log[-3:]}")
        try:
            back, used = K.decode(it.cd.cls, it.pristine)
        except Exception as e:
            raise Violation(f"history:decode-raised-after:{where}:{K.exc_signature(e)}",
                            f"{it.cd.path}: decoding pristine bytes raised {e!r} after {self.log[-3:]}")
        if not py_equal(back, it.value) or used != len(it.pristine):
            raise Violation(f"history:decode-differs-after:{where}",
                            f"{it.cd.path}: decoding gives {back!r:.200}, pristine value {it.value!r:.200} after {self.log[-3:]}")
        if ("w", i) in self._had_failure_on or ("r", i) in self._had_failure_on:
            self.failed_then_ok = True

    # -- operations (all JSON-able)
    def apply(self, op: list):
        self.log.append(op)
        try:
            getattr(self, "op_" + op[0])(*op[1:])
        except Violation:
            raise
        except Exception as e:  # noqa: BLE001
            # safety net: an exception that escapes an operation's own handling and comes from inside kio is a result
            # that depends on the history (the same operation is fine in a pristine state); anything else is a harness error
            sig = K.exc_signature(e)
            if sig.endswith("@?"):
                raise
            raise Violation(f"history:unexpected-exception:{op[0]}:{sig}", f"operation {op} raised {e!r} after {self.log[-4:-1]}")

    def op_add(self, path: str, tree_json):
        cd = D.describe(D.resolve(path))
        it = make_item(cd, tree_from_json(tree_json))
        clear_caches()
        got = K.encode(cd.cls, it.value)
        if got != it.pristine:
            raise Violation("history:pristine-differs-from-reference",
                            f"{path}: with cold caches kio encodes {got.hex()[:200]}, reference {it.pristine.hex()[:200]}")
        # equal twins of the value (one leaf replaced by an equal value of another type / the other zero), each encoded
        # with cold caches BEFORE the value itself has ever been encoded by that writer
        for lp in _leaf_paths(it.value):
            tw = _twin_of(_get_path(it.value, lp))
            if tw is None:
                continue
            twin_value = _replace_path(it.value, lp, tw)
            clear_caches()
            it.twins.append((lp, twin_value, _encode_outcome(K.entity_writer(cd.cls), twin_value)))
        clear_caches()
        self.items.append(it)

    def op_clear(self):
        clear_caches()

    def op_create(self, i: int, which: str, nullable: bool):
        it = self.items[i % len(self.items)]
        (K.entity_reader if which == "r" else K.entity_writer)(it.cd.cls, nullable)

    def op_encode(self, i: int):
        self.verify(i % len(self.items), "encode")

    def op_decode(self, i: int):
        self.verify(i % len(self.items), "decode")

    def op_nullable(self, i: int, style: int = 0):
        """The nullable variants, requested positionally (style 0) or by keyword (style 1): a presence marker before the
        struct, None <-> 0xff, whatever variants of this or other classes exist already."""
        it = self.items[i % len(self.items)]
        get_w = (lambda: K.entity_writer(it.cd.cls, True)) if style % 2 == 0 else (lambda: K.entity_writer(it.cd.cls, nullable=True))
        get_r = (lambda: K.entity_reader(it.cd.cls, True)) if style % 2 == 0 else (lambda: K.entity_reader(it.cd.cls, nullable=True))
        buf = io.BytesIO()
        try:
            get_w()(buf, None)
            get_w()(buf, it.value)
        except Exception as e:
            raise Violation(f"history:nullable-writer-raised:{K.exc_signature(e)}",
                            f"{it.cd.path}: the nullable writer (style {style % 2}) raised {e!r} after {self.log[-3:]}")
        want = b"\xff" + b"\x01" + it.pristine
        if buf.getvalue() != want:
            raise Violation("history:nullable-writer-differs", f"{it.cd.path}: {buf.getvalue().hex()[:120]} vs {want.hex()[:120]}")
        src = io.BytesIO(want)
        try:
            a = get_r()(src)
            b = get_r()(src)
        except Exception as e:
            raise Violation(f"history:nullable-reader-raised:{K.exc_signature(e)}",
                            f"{it.cd.path}: the nullable reader (style {style % 2}) raised {e!r} after {self.log[-3:]}")
        if a is not None or not py_equal(b, it.value):
            raise Violation("history:nullable-reader-differs", f"{it.cd.path}: {a!r:.80} {b!r:.80}")

    def op_truncated(self, i: int, cut: int):
        i %= len(self.items)
        it = self.items[i]
        if not it.pristine:
            return
        k = cut % len(it.pristine)
        try:
            self._reader(it)(io.BytesIO(it.pristine[:k]))
        except K.BufferUnderflow:
            self._had_failure_on.add(("r", i))
        except Exception as e:
            raise Violation(f"history:truncated-wrong-error:{type(e).__name__}", f"{it.cd.path}: prefix {k}: {e!r}")
        else:
            raise Violation("history:truncated-accepted", f"{it.cd.path}: prefix {k} decoded")

    def op_corrupt(self, i: int, sel: int, byte: int):
        """Decode the pristine bytes with ONE byte overwritten - preferably the last byte of a string/bytes value, with a
        UTF-8 lead byte, so that a well-framed string ends in the middle of a character.  Whatever this call does (raise,
        or return something), the calls that follow must not be affected by it."""
        from ..refcodec import OffsetMap, canonicalize

        i %= len(self.items)
        it = self.items[i]
        if not it.pristine:
            return
        om = OffsetMap()
        ref_encode(it.cd, canonicalize(it.cd, tree_from_json(it.tree_json)), om)
        values = [sp for sp in om.spans if sp[3] == "value" and sp[1] <= len(it.pristine)]
        if values and sel % 4:
            s0, e0, _p, _r = values[(sel // 4) % len(values)]
            pos = e0 - 1
        else:
            pos = sel % len(it.pristine)
        data = bytearray(it.pristine)
        data[pos] = [0xC3, 0xE2, 0xF0, 0xFF, 0x80, 0x00][byte % 6]
        try:
            self._reader(it)(io.BytesIO(bytes(data)))
        except Exception:
            self._had_failure_on.add(("r", i))

    def op_invalid(self, i: int, sel: int, kind: int):
        """Encode a value with one wrong-typed field somewhere (possibly deep inside), so the writer fails part-way."""
        i %= len(self.items)
        it = self.items[i]
        broken = _break(it.value, sel, kind, 0)
        sink = RecordingSink()
        try:
            self._writer(it)(sink, broken)
        except Exception:
            self._had_failure_on.add(("w", i))
        # success is possible (e.g. an int where any int is accepted): nothing to conclude from the output

    def op_twin(self, i: int, sel: int):
        """Encode an EQUAL twin of a pool value (one leaf swapped for an equal value of another type, or 0.0 <-> -0.0):
        the outcome must be what it was with cold caches, whatever has been encoded since."""
        i %= len(self.items)
        it = self.items[i]
        if not it.twins:
            return
        lp, twin_value, want = it.twins[sel % len(it.twins)]
        got = _encode_outcome(self._writer(it), twin_value)
        if got != want:
            raise Violation("history:equal-twin-encodes-differently",
                            f"{it.cd.path}: value with {'.'.join(map(str, lp))} = {_get_path(twin_value, lp)!r} (equal to the pool value's "
                            f"{_get_path(it.value, lp)!r}) gives {got[:200]} now, {want[:200]} with cold caches; after {self.log[-3:]}")

    def op_faulty_sink(self, i: int, k: int, exc_kind: int):
        i %= len(self.items)
        it = self.items[i]
        clean = RecordingSink()
        self._writer(it)(clean, it.value)
        n = len(clean.chunks)
        if n == 0:
            return
        k %= n
        exc = _make_exc(exc_kind)
        sink = FaultySink(k, exc)
        try:
            self._writer(it)(sink, it.value)
        except BaseException as e:  # noqa: BLE001
            if e is not exc:
                raise Violation(f"fault:sink-exception-replaced:{type(e).__name__}", f"{it.cd.path}: injected {exc!r} at write {k}, got {e!r}")
            self._had_failure_on.add(("w", i))
        else:
            raise Violation("fault:sink-exception-swallowed", f"{it.cd.path}: injected {exc!r} at write {k}/{n} was swallowed")
        if not it.pristine.startswith(sink.value()):
            raise Violation("fault:partial-output-not-a-prefix", f"{it.cd.path}: wrote {sink.value().hex()[:120]} before fault {k}")

    def op_faulty_source(self, i: int, k: int, exc_kind: int):
        i %= len(self.items)
        it = self.items[i]
        clean = ReadOnlySource(it.pristine)
        self._reader(it)(clean)
        n = len(clean.sizes)
        if n == 0:
            return
        k %= n
        exc = _make_exc(exc_kind)
        try:
            self._reader(it)(FaultySource(it.pristine, k, exc))
        except BaseException as e:  # noqa: BLE001
            if e is not exc:
                raise Violation(f"fault:source-exception-replaced:{type(e).__name__}", f"{it.cd.path}: injected {exc!r} at read {k}, got {e!r}")
            self._had_failure_on.add(("r", i))
        else:
            raise Violation("fault:source-exception-swallowed", f"{it.cd.path}: injected {exc!r} at read {k}/{n} was swallowed")


def _break(value, sel: int, kind: int, depth: int):
    fields = dataclasses.fields(value)
    if not fields:  # some entities have no fields at all (e.g. ApiVersionsRequest v0): nothing to break
        return value
    f = fields[sel % len(fields)]
    v = getattr(value, f.name)
    descend = (sel // 5) % 3 != 0 and depth < 4
    if descend and dataclasses.is_dataclass(v) and not isinstance(v, type):
        return dataclasses.replace(value, **{f.name: _break(v, sel // 3 + 1, kind, depth + 1)})
    if descend and isinstance(v, tuple) and v and dataclasses.is_dataclass(v[-1]):
        return dataclasses.replace(value, **{f.name: v[:-1] + (_break(v[-1], sel // 3 + 1, kind, depth + 1),)})
    bad = [object(), "not-a-number" if not isinstance(v, str) else 12345, 2**80, [1, 2, 3]][kind % 4]
    return dataclasses.replace(value, **{f.name: bad})


def _make_exc(kind: int) -> BaseException:
    return [InjectedFault("injected"), ConnectionResetError(104, "reset by peer"), TimeoutError("timed out"), OSError(5, "EIO")][kind % 4]


def replay_ops(ops: list) -> list[tuple[str, str]]:
    ex = Executor()
    try:
        for op in ops:
            ex.apply(op)
            if op[0] != "add":
                ex.verify_all(op[0])
    except Violation as v:
        return [(v.sig, v.msg)]
    finally:
        clear_caches()
    return []


# --------------------------------------------------------------------------- (1) histories


def _pool_classes(seed_classes):
    return [D.describe(D.resolve(p)) for p in _FIXED_POOL] + seed_classes


def same_name_groups() -> list[list[str]]:
    """Classes that share a name across versions of one API and (transitively) contain tagged fields: the place where
    a cache keyed by something less than the class object, or a default shared between classes, would show."""
    from ..treeprop import _has_tagged

    groups: dict = {}
    for c in D.all_classes():
        cd = D.describe(c)
        if _has_tagged(cd):
            api = c.__module__.split(".")[2]
            groups.setdefault((api, c.__module__.split(".")[4], c.__name__), []).append(cd.path)
    return [sorted(v) for k, v in sorted(groups.items()) if len(v) >= 2]


def all_same_name_groups() -> list[list[str]]:
    """Every class name that occurs in >= 2 versions of one (API, type): 2-version pairs are drawn from these too."""
    groups: dict = {}
    for c in D.all_classes():
        parts = c.__module__.split(".")
        groups.setdefault((parts[2], parts[4], c.__name__), []).append(f"{c.__module__}:{c.__qualname__}")
    return [sorted(v) for k, v in sorted(groups.items()) if len(v) >= 2]


class HistoryMachine(RuleBasedStateMachine):
    extra_classes: list = []
    name_groups: list = []
    any_groups: list = []

    def __init__(self):
        super().__init__()
        self.ex = Executor()

    @initialize(data=st.data())
    def setup(self, data):
        fixed = [D.describe(D.resolve(p)) for p in _FIXED_POOL]
        chosen = data.draw(st.lists(st.sampled_from(fixed), min_size=3, max_size=4, unique_by=lambda c: c.path))
        if self.extra_classes:
            chosen += data.draw(st.lists(st.sampled_from(self.extra_classes), min_size=1, max_size=4, unique_by=lambda c: c.path))
        if self.name_groups:
            # two versions of one same-named class (in a drawn order)
            group = data.draw(st.sampled_from(self.name_groups))
            pair = data.draw(st.lists(st.sampled_from(group), min_size=2, max_size=2, unique=True))
            chosen = [D.describe(D.resolve(p)) for p in pair] + [c for c in chosen if c.path not in pair]
        if self.any_groups:
            group = data.draw(st.sampled_from(self.any_groups))
            pair = data.draw(st.lists(st.sampled_from(group), min_size=2, max_size=2, unique=True))
            chosen = chosen[:5] + [D.describe(D.resolve(p)) for p in pair if p not in {c.path for c in chosen}]
        clear_caches()
        for cd in chosen:
            for _ in range(data.draw(st.integers(1, 2))):
                tree = data.draw(tree_strategy(cd, PROFILE))
                self.ex.apply(["add", cd.path, tree_to_json(tree)])
        clear_caches()

    def _do(self, op):
        self.ex.apply(op)

    @rule()
    def clear(self):
        self._do(["clear"])

    @rule(i=st.integers(0, 63), which=st.sampled_from(["r", "w"]), nullable=st.booleans())
    def create(self, i, which, nullable):
        self._do(["create", i, which, nullable])

    @rule(i=st.integers(0, 63))
    def encode(self, i):
        self._do(["encode", i])

    @rule(i=st.integers(0, 63))
    def decode(self, i):
        self._do(["decode", i])

    @rule(i=st.integers(0, 63), style=st.integers(0, 1))
    def nullable(self, i, style):
        self._do(["nullable", i, style])

    @rule(i=st.integers(0, 63), cut=st.integers(0, 10**6))
    def truncated(self, i, cut):
        self._do(["truncated", i, cut])

    @rule(i=st.integers(0, 63), sel=st.integers(0, 63), kind=st.integers(0, 3))
    def invalid(self, i, sel, kind):
        self._do(["invalid", i, sel, kind])

    @rule(i=st.integers(0, 63), sel=st.integers(0, 10**6), byte=st.integers(0, 5))
    def corrupt(self, i, sel, byte):
        self._do(["corrupt", i, sel, byte])

    @rule(i=st.integers(0, 63), sel=st.integers(0, 63))
    def twin(self, i, sel):
        self._do(["twin", i, sel])

    @rule(i=st.integers(0, 63), k=st.integers(0, 10**6), e=st.integers(0, 3))
    def faulty_sink(self, i, k, e):
        self._do(["faulty_sink", i, k, e])

    @rule(i=st.integers(0, 63), k=st.integers(0, 10**6), e=st.integers(0, 3))
    def faulty_source(self, i, k, e):
        self._do(["faulty_source", i, k, e])

    @invariant()
    def pristine_everywhere(self):
        if self.ex.items:
            self.ex.verify_all(self.ex.log[-1][0] if self.ex.log else "start")

    def teardown(self):
        _HISTORY_STATS["runs"] += 1
        _HISTORY_STATS["steps"] += len(self.ex.log)
        if self.ex.failed_then_ok:
            _HISTORY_STATS["nontrivial"].add(case_hash(json.dumps(self.ex.log)))
        if len(_HISTORY_STATS["samples"]) < 1 and len({op[0] for op in self.ex.log}) >= 5:
            _HISTORY_STATS["samples"].append([op if op[0] != "add" else ["add", op[1], "<tree>"] for op in self.ex.log[:14]])
        _HISTORY_STATS["last_log"] = self.ex.log
        clear_caches()


_HISTORY_STATS = {"runs": 0, "steps": 0, "nontrivial": set(), "samples": [], "last_log": []}


def minimize_ops(ops: list, sig: str, budget: int = 120) -> list:
    def fails(o):
        try:
            return any(s == sig for s, _ in replay_ops(o))
        except Exception:
            return False

    cur = list(ops)
    calls = 0
    changed = True
    while changed and calls < budget:
        changed = False
        for i in range(len(cur) - 1, -1, -1):
            cand = cur[:i] + cur[i + 1:]
            if not any(o[0] == "add" for o in cand):
                continue
            calls += 1
            if fails(cand):
                cur = cand
                changed = True
                break
            if calls >= budget:
                break
    return cur


def _history_worker(task):
    seed, runs, steps, extra_paths, groups, any_groups = task
    rep = Report(prop=ID, level="exploration", rule=RULE)
    _HISTORY_STATS.update({"runs": 0, "steps": 0, "nontrivial": set(), "samples": [], "last_log": []})
    HistoryMachine.extra_classes = [D.describe(D.resolve(p)) for p in extra_paths]
    HistoryMachine.name_groups = groups
    HistoryMachine.any_groups = any_groups
    try:
        run_state_machine_as_test(
            hypothesis.seed(seed)(HistoryMachine),
            settings=settings(max_examples=runs, stateful_step_count=steps, database=None, deadline=None,
                              phases=[Phase.generate], suppress_health_check=list(HealthCheck), report_multiple_bugs=False),
        )
    except Violation as v:
        ops = _HISTORY_STATS["last_log"] or []
        # the failing machine did not reach teardown: its log is on the exception's traceback frames; re-derive it
        ops = _find_log(v) or ops
        small = minimize_ops(ops, v.sig)
        rep.add_failure(Failure(v.sig, v.msg, {"kind": "history", "ops": small}, len(json.dumps(small))))
    finally:
        clear_caches()
    rep.evaluations = _HISTORY_STATS["steps"]
    rep.nontrivial = set(_HISTORY_STATS["nontrivial"])
    rep.samples = [{"history": s} for s in _HISTORY_STATS["samples"]]
    rep.extra["counters"] = {"history_runs": _HISTORY_STATS["runs"], "history_steps": _HISTORY_STATS["steps"]}
    return rep


def _find_log(exc: BaseException):
    tb = exc.__traceback__
    while tb is not None:
        self_obj = tb.tb_frame.f_locals.get("self")
        if isinstance(self_obj, Executor):
            return list(self_obj.log)
        if isinstance(self_obj, HistoryMachine):
            return list(self_obj.ex.log)
        tb = tb.tb_next
    return None


# --------------------------------------------------------------------------- (2) exhaustive fault positions


def fault_sweep(cd: D.ClassDesc, tree) -> tuple[int, int, list]:
    """-> (positions injected, positions strictly inside, failures)"""
    it = make_item(cd, tree)
    out = []
    writer, reader = K.entity_writer(cd.cls), K.entity_reader(cd.cls)
    clean = RecordingSink()
    writer(clean, it.value)
    if clean.value() != it.pristine:
        return 0, 0, [("fault:clean-output-differs-from-reference", f"{cd.path}")]
    W = len(clean.chunks)
    src = ReadOnlySource(it.pristine)
    reader(src)
    R = len(src.sizes)
    inside = 0
    case = {"kind": "fault", "class": cd.path, "tree": tree_to_json(tree)}
    for k in range(W):
        for ek in (0, 1):
            exc = _make_exc(ek)
            sink = FaultySink(k, exc)
            try:
                writer(sink, it.value)
                out.append(("fault:sink-exception-swallowed", f"{cd.path}: fault at write {k}/{W} swallowed"))
            except BaseException as e:  # noqa: BLE001
                if e is not exc:
                    out.append((f"fault:sink-exception-replaced:{type(e).__name__}", f"{cd.path}: write {k}/{W}: injected {exc!r}, got {e!r}"))
            if sink.chunks != clean.chunks[:k]:
                out.append(("fault:partial-output-not-a-prefix", f"{cd.path}: before fault {k} the sink saw {len(sink.chunks)} chunks, clean run has {k}"))
            # clean call on the same closure afterwards
            after = RecordingSink()
            try:
                writer(after, it.value)
                if after.value() != it.pristine:
                    out.append(("fault:writer-differs-after-fault", f"{cd.path}: after a fault at write {k}/{W}: {after.value().hex()[:160]} vs {it.pristine.hex()[:160]}"))
            except Exception as e:
                out.append((f"fault:writer-raises-after-fault:{type(e).__name__}", f"{cd.path}: after a fault at write {k}/{W}: {e!r}"))
        if 0 < k < W - 1:
            inside += 1
    for k in range(R):
        exc = _make_exc(k % 4)
        try:
            reader(FaultySource(it.pristine, k, exc))
            out.append(("fault:source-exception-swallowed", f"{cd.path}: fault at read {k}/{R} swallowed"))
        except BaseException as e:  # noqa: BLE001
            if e is not exc:
                out.append((f"fault:source-exception-replaced:{type(e).__name__}", f"{cd.path}: read {k}/{R}: injected {exc!r}, got {e!r}"))
        try:
            back = reader(io.BytesIO(it.pristine))
            if not py_equal(back, it.value):
                out.append(("fault:reader-differs-after-fault", f"{cd.path}: after a fault at read {k}/{R}: {back!r:.200}"))
        except Exception as e:
            out.append((f"fault:reader-raises-after-fault:{type(e).__name__}", f"{cd.path}: after a fault at read {k}/{R}: {e!r}"))
        if 0 < k < R - 1:
            inside += 1
    return 2 * W + R, inside, [(s, m, case) for s, m in out]


def _fault_worker(task):
    seed, paths, per_class = task
    rep = Report(prop=ID, level="exploration", rule=RULE)
    c = {"fault_pairs": 0, "fault_positions": 0}
    for path in paths:
        cd = D.describe(D.resolve(path))

        @hypothesis.seed(seed ^ (case_hash(path) & 0xFFFFFFF))
        @settings(max_examples=per_class, database=None, deadline=None, phases=[Phase.generate], suppress_health_check=list(HealthCheck))
        @given(tree_strategy(cd, PROFILE))
        def test(tree):
            n, inside, fails = fault_sweep(cd, tree)
            c["fault_pairs"] += 1
            c["fault_positions"] += n
            rep.evaluations += n
            h = case_hash((path, json.dumps(tree_to_json(tree))))
            if inside and h not in rep.nontrivial:
                rep.nontrivial.add(h)
                rep.extra["fault_inside_positions"] = rep.extra.get("fault_inside_positions", 0) + inside
            for sig, msg, case in fails:
                rep.add_failure(Failure(sig, msg, case, len(json.dumps(case))))

        test()
    rep.extra["counters"] = c
    return rep


# --------------------------------------------------------------------------- (3) schedules

_KIO_PREFIX = None


def kio_prefix() -> str:
    global _KIO_PREFIX
    if _KIO_PREFIX is None:
        import kio

        _KIO_PREFIX = os.path.dirname(kio.__file__)
    return _KIO_PREFIX


_SCHED_FNS = {"entity_reader", "entity_writer", "read_entity", "write_entity", "get_field_reader", "get_field_writer",
              "get_reader", "get_writer", "write_tagged_field", "get_tagged_field_default", "classify_field",
              "_classify_field", "is_optional", "write_nullable", "read_nullable_entity", "get_implicit_default"}


def run_schedule(items: list[Item], programs: list[list], preemptions: list, cold: bool = True) -> tuple[list, object]:
    """programs: per thread a list of ops ("w"|"r"|"enc"|"dec"|"nenc", item index).  -> (failures, RunResult)"""

    def make(prog):
        def body():
            res = []
            for op, i in prog:
                it = items[i % len(items)]
                if op == "w":
                    K.entity_writer(it.cd.cls)
                    res.append(None)
                elif op == "r":
                    K.entity_reader(it.cd.cls)
                    res.append(None)
                elif op == "enc":
                    res.append(K.encode(it.cd.cls, it.value))
                elif op == "dec":
                    res.append(K.decode(it.cd.cls, it.pristine))
                elif op == "nenc":
                    buf = io.BytesIO()
                    K.entity_writer(it.cd.cls, True)(buf, it.value)
                    res.append(buf.getvalue())
            return res

        return body

    clear_caches()
    if not cold:  # warm: closures exist already, only their use is interleaved
        for it in items:
            K.entity_writer(it.cd.cls)
            K.entity_writer(it.cd.cls, True)
            K.entity_reader(it.cd.cls)
    sch = Scheduler([make(p) for p in programs], preemptions, kio_prefix())
    r = sch.run()
    out = []
    for tid, e in r.errors:
        out.append((f"schedule:thread-raised:{K.exc_signature(e)}", f"thread {tid} raised {e!r}; preemptions {r.preempted_at}"))
    for tid, (prog, res) in enumerate(zip(programs, r.results)):
        if res is None:
            continue
        for (op, i), got in zip(prog, res):
            it = items[i % len(items)]
            if op == "enc" and got != it.pristine:
                out.append(("schedule:encode-differs", f"thread {tid} encoded {it.cd.path} as {got.hex()[:160]}, pristine {it.pristine.hex()[:160]}; preemptions {r.preempted_at}"))
            elif op == "nenc" and got != b"\x01" + it.pristine:
                out.append(("schedule:encode-differs", f"thread {tid} nullable-encoded {it.cd.path} as {got.hex()[:160]}; preemptions {r.preempted_at}"))
            elif op == "dec" and (not py_equal(got[0], it.value) or got[1] != len(it.pristine)):
                out.append(("schedule:decode-differs", f"thread {tid} decoded {it.cd.path} as {got[0]!r:.200}; preemptions {r.preempted_at}"))
    # afterwards, single-threaded, the cached closures must still be right
    for it in items:
        try:
            if K.encode(it.cd.cls, it.value) != it.pristine:
                out.append(("schedule:encode-differs-afterwards", f"{it.cd.path} after schedule {r.preempted_at}"))
        except Exception as e:
            out.append((f"schedule:encode-raised-afterwards:{K.exc_signature(e)}", f"{it.cd.path} after schedule {r.preempted_at}: {e!r}"))
        try:
            back, used = K.decode(it.cd.cls, it.pristine)
            if not py_equal(back, it.value) or used != len(it.pristine):
                out.append(("schedule:decode-differs-afterwards", f"{it.cd.path} decodes to {back!r:.200} after schedule {r.preempted_at}"))
        except Exception as e:
            out.append((f"schedule:decode-raised-afterwards:{K.exc_signature(e)}", f"{it.cd.path} after schedule {r.preempted_at}: {e!r}"))
    return out, r


@st.composite
def schedule_cases(draw, item_paths):
    nthreads = draw(st.sampled_from([2, 2, 3]))
    nitems = len(item_paths)
    op = st.tuples(st.sampled_from(["w", "r", "enc", "enc", "dec", "dec", "nenc"]), st.integers(0, nitems - 1))
    same = draw(st.booleans())
    base = draw(st.lists(op, min_size=1, max_size=4))
    programs = [base if same else draw(st.lists(op, min_size=1, max_size=4)) for _ in range(nthreads)]
    frac = st.integers(0, 10**6)
    pre = draw(st.lists(st.tuples(frac, st.integers(0, nthreads - 1)), min_size=1, max_size=3))
    return {"programs": programs, "preemptions": pre}


def _schedule_items(trees_json) -> list[Item]:
    return [make_item(D.describe(D.resolve(p)), tree_from_json(t)) for p, t in trees_json]


def eval_schedule(trees_json, programs, pre_fracs) -> tuple[list, object, list]:
    items = _schedule_items(trees_json)
    # dry run (run to completion) gives the step count that the fractional preemption points refer to
    _f, dry = run_schedule(items, programs, [])
    total = max(dry.steps, 1)
    pre = sorted((f * total // 10**6, t) for f, t in pre_fracs)
    fails, r = run_schedule(items, programs, pre)
    return fails, r, pre


def _schedule_worker(task):
    seed, n, trees_json, sweep = task
    rep = Report(prop=ID, level="exploration", rule=RULE)
    c = {"schedules": 0, "schedule_steps": 0, "preemptions_landed": 0, "sweep_schedules": 0}
    paths = [p for p, _ in trees_json]

    @hypothesis.seed(seed)
    @settings(max_examples=n, database=None, deadline=None, phases=[Phase.generate], suppress_health_check=list(HealthCheck))
    @given(schedule_cases(paths))
    def test(case):
        try:
            fails, r, pre = eval_schedule(trees_json, case["programs"], case["preemptions"])
        except SchedulerStuck as e:
            raise HarnessError(f"scheduler stuck: {e}") from None
        c["schedules"] += 1
        c["schedule_steps"] += r.steps
        rep.evaluations += 1
        landed = [p for p in r.preempted_at if p[3] in _SCHED_FNS]
        c["preemptions_landed"] += len(r.preempted_at)
        if landed:
            rep.nontrivial.add(case_hash(json.dumps([case["programs"], pre])))
            if len(rep.samples) < 1:
                rep.samples.append({"programs": case["programs"], "preempted_at": [list(p) for p in r.preempted_at]})
        for sig, msg in fails:
            rep.add_failure(Failure(sig, msg, {"kind": "schedule", "items": trees_json, "programs": case["programs"],
                                               "preemptions": case["preemptions"]}, len(msg)))

    test()
    clear_caches()
    rep.extra["counters"] = c
    return rep


def _fixed_schedule_items(seed: int):
    """Deterministic pool for the schedule dimension: the fixed classes with generated values; the first two
    classes get two different values each (so that two threads can work on different values of one class) and
    FetchRequest v15 gets non-default tagged fields."""
    from ..refcodec import Present

    out = []
    for idx, path in enumerate(_FIXED_POOL):
        cd = D.describe(D.resolve(path))
        holder = []
        want = 2 if idx < 2 else 1

        @hypothesis.seed(seed ^ (case_hash(path) & 0xFFFFFF))
        @settings(max_examples=8, database=None, deadline=None, phases=[Phase.generate], suppress_health_check=list(HealthCheck))
        @given(tree_strategy(cd, Profile("sched", long_strings=False, max_array=2)))
        def one(tree):
            if len(holder) < want and tree_to_json(tree) not in [tree_to_json(t) for t in holder]:
                holder.append(tree)

        one()
        for n, tree in enumerate(holder):
            if "cluster_id" in tree and "replica_state" in tree:
                tree["cluster_id"] = Present(b"cluster-%d" % n)
                tree["replica_state"] = Present({"replica_id": 7 + n, "replica_epoch": 1000 + n})
            out.append((path, tree_to_json(tree)))
    return out


# item indices in the fixed pool: 0,1 = RequestHeader v2 (two values); 2,3 = FetchRequest v15 (two values, tagged)
SWEEPS_QUICK = [
    ("warm-encode-two-values", False, [[("enc", 2)], [("enc", 3)]]),
    ("warm-decode-two-values", False, [[("dec", 2)], [("dec", 3)]]),
    ("cold-encode-tagged", True, [[("enc", 2)], [("enc", 3)]]),
]
SWEEPS_THOROUGH = SWEEPS_QUICK + [
    ("cold-decode-tagged", True, [[("dec", 2)], [("dec", 3)]]),
    ("cold-mixed", True, [[("enc", 2), ("dec", 4)], [("dec", 2), ("nenc", 0)]]),
    ("warm-mixed-3-threads", False, [[("enc", 2), ("dec", 2)], [("enc", 3), ("dec", 3)], [("nenc", 2), ("dec", 1)]]),
    ("cold-headers", True, [[("enc", 0), ("dec", 1)], [("enc", 1), ("dec", 0)]]),
]


def populated_tree(cd: D.ClassDesc, n: int, variant: int) -> dict:
    """Deterministic tree with n-item arrays at every level and values that differ by `variant`."""
    from ..refcodec import Present

    t = {}
    for f in cd.fields:
        if f.kind == "struct":
            make = lambda f=f: populated_tree(f.struct, n, variant)  # noqa: E731
        elif f.kind == "float64":
            make = lambda: bytes.fromhex("3ff8000000000000")  # noqa: E731
        elif f.kind == "uuid":
            make = lambda: bytes([variant + 1]) * 16  # noqa: E731
        elif f.kind in ("string", "bytes", "records"):
            make = lambda: b"v%d" % variant  # noqa: E731
        elif f.kind == "bool":
            make = lambda: 1  # noqa: E731
        elif f.kind == "error_code":
            make = lambda: 3  # noqa: E731
        else:
            make = lambda: 5 + variant  # noqa: E731
        v = [make() for _ in range(n)] if f.array else make()
        t[f.name] = Present(v) if f.tag is not None else v
    return t


# two-preemption sweeps: thread 0 is parked at step k1, thread 1 runs until step k2 and is parked as well, thread 0
# resumes and finishes, then thread 1 finishes -- for EVERY pair (k1, k2) (stride > 1 only in the large program)
PAIR_SWEEPS_QUICK = [("warm-decode-arrays-pair", "kio.schema.metadata.v12.request:MetadataRequest", 2, 1)]
PAIR_SWEEPS_THOROUGH = PAIR_SWEEPS_QUICK + [
    ("warm-encode-arrays-pair", "kio.schema.metadata.v12.request:MetadataRequest", 2, 1),
    ("warm-decode-nested-arrays-pair", "kio.schema.metadata.v12.response:MetadataResponse", 2, 3),
]


def _pair_items(path: str, n: int):
    cd = D.describe(D.resolve(path))
    return [(path, tree_to_json(populated_tree(cd, n, v))) for v in (0, 1)]


def _pair_sweep_worker(task):
    name, path, n, stride, op, k1_lo, k1_hi, per_thread = task
    rep = Report(prop=ID, level="exploration", rule=RULE)
    trees_json = _pair_items(path, n)
    items = _schedule_items(trees_json)
    programs = [[(op, 0)], [(op, 1)]]
    c = {"pair_sweep_schedules": 0}
    for k1 in range(k1_lo, k1_hi, stride):
        for k2 in range(k1 + 1, k1 + per_thread + 2, stride):
            fails, r = run_schedule(items, programs, [(k1, 1), (k2, 0)], cold=False)
            c["pair_sweep_schedules"] += 1
            rep.evaluations += 1
            if len(r.preempted_at) == 2:
                rep.nontrivial.add(case_hash(("pair", name, k1, k2)))
            for sig, msg in fails:
                rep.add_failure(Failure(sig, f"[pair sweep {name}] " + msg, {"kind": "schedule-abs", "items": trees_json, "programs": programs,
                                                                            "preemptions": [[k1, 1], [k2, 0]], "cold": False}, len(msg)))
    clear_caches()
    rep.extra["counters"] = c
    return rep


# cold CREATION of two readers (or writers) by two threads, every pair of preemption points: thread 0 is parked at k1 inside
# its construction, thread 1 is parked at k2 inside its own, thread 0 finishes, then thread 1.  The closures built that way
# are used afterwards (single-threaded) on a populated value.
COLD_PAIRS_QUICK = [("cold-create-readers", "r", "kio.schema.request_header.v2.header:RequestHeader",
                     "kio.schema.find_coordinator.v4.request:FindCoordinatorRequest")]
COLD_PAIRS_THOROUGH = COLD_PAIRS_QUICK + [
    ("cold-create-writers", "w", "kio.schema.request_header.v2.header:RequestHeader", "kio.schema.find_coordinator.v4.request:FindCoordinatorRequest"),
    ("cold-create-readers-b", "r", "kio.schema.request_header.v1.header:RequestHeader", "kio.schema.api_versions.v3.response:ApiVersionsResponse"),
    ("cold-create-readers-c", "r", "kio.schema.fetch_snapshot.v1.request:FetchSnapshotRequest", "kio.schema.request_header.v2.header:RequestHeader"),
]


def _cold_pair_items(a: str, b: str):
    return [(a, tree_to_json(populated_tree(D.describe(D.resolve(a)), 1, 0))), (b, tree_to_json(populated_tree(D.describe(D.resolve(b)), 1, 1)))]


def _cold_pair_worker(task):
    name, op, a, b, k1_lo, k1_hi, span = task
    rep = Report(prop=ID, level="exploration", rule=RULE)
    trees_json = _cold_pair_items(a, b)
    items = _schedule_items(trees_json)
    programs = [[(op, 0)], [(op, 1)]]
    c = {"cold_pair_schedules": 0}
    for k1 in range(k1_lo, k1_hi):
        for k2 in range(k1 + 1, k1 + span + 2):
            fails, r = run_schedule(items, programs, [(k1, 1), (k2, 0)], cold=True)
            c["cold_pair_schedules"] += 1
            rep.evaluations += 1
            if len(r.preempted_at) == 2:
                rep.nontrivial.add(case_hash(("coldpair", name, k1, k2)))
            for sig, msg in fails:
                rep.add_failure(Failure(sig, f"[cold pair sweep {name}] " + msg, {"kind": "schedule-abs", "items": trees_json, "programs": programs,
                                                                                 "preemptions": [[k1, 1], [k2, 0]], "cold": True}, len(msg)))
    clear_caches()
    rep.extra["counters"] = c
    return rep


def cold_pair_tasks(ctx: Ctx) -> list:
    tasks = []
    for name, op, a, b in (COLD_PAIRS_QUICK if ctx.quick else COLD_PAIRS_THOROUGH):
        items = _schedule_items(_cold_pair_items(a, b))
        _f, dry0 = run_schedule(items, [[(op, 0)], []], [], cold=True)
        _f, dry1 = run_schedule(items, [[], [(op, 1)]], [], cold=True)
        s0, s1 = dry0.steps, dry1.steps
        for lo in range(0, s0, 4):
            tasks.append((name, op, a, b, lo, min(s0, lo + 4), s1))
    clear_caches()
    return tasks


def pair_sweep_tasks(ctx: Ctx, shards: int) -> list:
    tasks = []
    for name, path, n, stride in (PAIR_SWEEPS_QUICK if ctx.quick else PAIR_SWEEPS_THOROUGH):
        op = "enc" if "encode" in name else "dec"
        items = _schedule_items(_pair_items(path, n))
        _f, dry = run_schedule(items, [[(op, 0)], [(op, 1)]], [], cold=False)
        per_thread = dry.steps // 2 + 1
        step = max(1, -(-per_thread // (shards * 2)))
        for lo in range(0, per_thread, step):
            tasks.append((name, path, n, stride, op, lo, min(per_thread, lo + step), per_thread))
    clear_caches()
    return tasks


def _sweep_worker(task):
    name, cold, programs, trees_json, lo, hi = task
    rep = Report(prop=ID, level="exploration", rule=RULE)
    items = _schedule_items(trees_json)
    c = {"sweep_schedules": 0}
    for k in range(lo, hi):
        for target in range(1, len(programs)):
            fails, r = run_schedule(items, programs, [(k, target)], cold=cold)
            c["sweep_schedules"] += 1
            rep.evaluations += 1
            if r.preempted_at and r.preempted_at[0][3] in _SCHED_FNS:
                rep.nontrivial.add(case_hash(("sweep", name, k, target)))
            for sig, msg in fails:
                rep.add_failure(Failure(sig, f"[sweep {name}] " + msg, {"kind": "schedule-abs", "items": trees_json, "programs": programs,
                                                   "preemptions": [[k, target]], "cold": cold}, len(msg)))
    clear_caches()
    rep.extra["counters"] = c
    return rep


def sweep_tasks(ctx: Ctx, trees_json, shards: int) -> list:
    items = _schedule_items(trees_json)
    tasks = []
    for name, cold, programs in (SWEEPS_QUICK if ctx.quick else SWEEPS_THOROUGH):
        _f, dry = run_schedule(items, programs, [], cold=cold)
        first = dry.steps  # upper bound for the steps thread 0 can be preempted at
        step = max(1, -(-first // shards))
        for lo in range(0, first, step):
            tasks.append((name, cold, programs, trees_json, lo, min(first, lo + step)))
    clear_caches()
    return tasks


# --------------------------------------------------------------------------- (3c) X-vs-Y sweeps over classes covering every field kind


def kind_cover_classes() -> list[str]:
    """A small set of small classes that together contain every primitive kind (plain, in arrays, tagged), a nullable
    struct and a nested struct array: greedy set cover over the whole schema, smallest classes first."""

    def features(cd: D.ClassDesc, depth: int = 0) -> set:
        out = set()
        for f in cd.fields:
            out.add((f.kind, f.array, f.tag is not None))
            if f.kind == "struct":
                if f.nullable and not f.array:
                    out.add(("nullable-struct", False, False))
                if depth < 2:
                    out |= features(f.struct, depth + 1)
        return out

    def size(cd: D.ClassDesc, depth: int = 0) -> int:
        return sum(1 + (size(f.struct, depth + 1) if f.kind == "struct" and depth < 3 else 0) for f in cd.fields)

    cands = []
    for cls in D.all_classes():
        cd = D.describe(cls)
        if cd.cls.__type__.name in ("request", "response", "header", "data") and 1 <= size(cd) <= 14:
            cands.append((size(cd), cd.path, features(cd)))
    cands.sort()
    uncovered = set().union(*(f for _s, _p, f in cands)) if cands else set()
    picked = []
    while uncovered:
        best = max(cands, key=lambda c: (len(c[2] & uncovered), -c[0], c[1]))
        gain = best[2] & uncovered
        if not gain:
            break
        picked.append(best[1])
        uncovered -= gain
    return picked


def tag_bearing_classes() -> list[str]:
    """every class (any version, nested ones too) that itself declares at least one tagged field"""
    return [D.describe(c).path for c in D.all_classes() if D.describe(c).tagged_fields]


def tag_bearing_messages() -> list[str]:
    """One top-level message per (api, entity type) - the latest version - among those that contain, at any depth, a
    class declaring tagged fields; ordered so that ring neighbours belong to different APIs."""

    def has_tags(cd: D.ClassDesc, depth: int = 0) -> bool:
        return any(f.tag is not None or (f.kind == "struct" and depth < 4 and has_tags(f.struct, depth + 1)) for f in cd.fields)

    best: dict = {}
    for api, version, etype, modname in D.walk_version_modules():
        for cls in D.module_classes(modname):
            if cls.__type__.name != etype or cls.__type__.name == "nested":
                continue
            cd = D.describe(cls)
            if has_tags(cd) and best.get((api, etype), (-1, None))[0] < version:
                best[(api, etype)] = (version, cd.path)
    return [p for _k, (_v, p) in sorted(best.items(), key=lambda kv: (kv[0][1], kv[0][0]))]


def kind_pair_tasks(ctx: Ctx, shards: int) -> list:
    """One preemption swept over EVERY step of thread 0 encoding (decoding) a value of class X while thread 1 encodes
    (decodes) a value of a DIFFERENT class Y, warm caches, for consecutive pairs (both orders) of the kind-cover list."""
    cover = kind_cover_classes()
    if not ctx.quick:
        cover = cover + cover[::2]  # a second, different pairing
    tagged = tag_bearing_messages()
    rings = [(cover, 1), (tagged, 1)] + ([(tagged, 2), (tagged, 3)] if not ctx.quick else [])
    pairs = []
    for ring, hop in rings:
        for i, x in enumerate(ring):
            y = ring[(i + hop) % len(ring)]
            if x != y and (x, y) not in pairs:
                pairs.append((x, y))
    tasks = []
    for x, y in pairs:
        for a, b in ((x, y), (y, x)):
            n_items = 1 if a in tagged and b in tagged else 2
            trees_json = [(a, tree_to_json(populated_tree(D.describe(D.resolve(a)), n_items, 0))),
                          (b, tree_to_json(populated_tree(D.describe(D.resolve(b)), n_items, 1)))]
            items = _schedule_items(trees_json)
            for op in ("enc", "dec"):
                programs = [[(op, 0)], [(op, 1)]]
                _f, dry = run_schedule(items, programs, [], cold=False)
                name = f"kind-pair-{op}:{a.split(':')[1]}|{b.split(':')[1]}"
                for lo in range(0, dry.steps, 48):  # small chunks, so that the pool stays balanced
                    tasks.append((name, False, programs, trees_json, lo, min(dry.steps, lo + 48)))
    # COLD caches, two threads working on two values of the SAME class: one preemption anywhere inside thread 0's
    # construction + use, for the tag-bearing messages and every class of the kind cover that has a nullable struct field
    def has_nullable_struct(cd, depth=0):
        return any((f.kind == "struct" and f.nullable and not f.array) or (f.kind == "struct" and depth < 2 and has_nullable_struct(f.struct, depth + 1))
                   for f in cd.fields)

    cold_classes = list(dict.fromkeys(tagged + [c for c in cover if has_nullable_struct(D.describe(D.resolve(c)))]))
    if ctx.quick:
        cold_classes = cold_classes[::2] + [c for c in cold_classes if has_nullable_struct(D.describe(D.resolve(c)))]
        cold_classes = list(dict.fromkeys(cold_classes))
    for a in cold_classes:
        cd = D.describe(D.resolve(a))
        trees_json = [(a, tree_to_json(populated_tree(cd, 1, 0))), (a, tree_to_json(populated_tree(cd, 1, 1)))]
        items = _schedule_items(trees_json)
        for op in ("enc", "dec"):
            programs = [[(op, 0)], [(op, 1)]]
            _f, dry = run_schedule(items, [[(op, 0)], []], [], cold=True)
            name = f"cold-same-class-{op}:{a.split(':')[1]}"
            for lo in range(0, dry.steps, 48):
                tasks.append((name, True, programs, trees_json, lo, min(dry.steps, lo + 48)))
    clear_caches()
    return tasks



# --------------------------------------------------------------------------- (4) creation/use orders in fresh processes


def _run_order_child(spec: str, only: list[str] | None = None, flip: int | None = None) -> dict:
    import subprocess
    import sys
    import tempfile

    with tempfile.NamedTemporaryFile(prefix="kv-c19-order-", suffix=".json", delete=False) as fh:
        out = fh.name
    try:
        cmd = [sys.executable, "-m", "kv.c19_orders", out, spec] + (["only=" + ",".join(only)] if only else []) + ([f"flip={flip}"] if flip is not None else [])
        r = subprocess.run(cmd, capture_output=True, text=True, cwd=os.path.dirname(os.path.dirname(os.path.dirname(os.path.abspath(__file__)))))
        if r.returncode != 0:
            raise HarnessError(f"order child {spec[:60]} failed: {r.stderr[-800:]}")
        with open(out) as f:
            return json.load(f)
    finally:
        try:
            os.unlink(out)
        except OSError:
            pass


def _order_worker(spec: str) -> tuple[str, dict]:
    return spec, _run_order_child(spec)


def order_pair_differs(first: str | None, then: str, label: str) -> tuple[str, str]:
    """-> (outcome of `then` alone, outcome of `then` after `first` was created and used), each in a fresh process."""
    alone = _run_order_child("list:" + then)[then].get(label, "<no such call>")
    after = _run_order_child("list:" + first + "," + then, only=[then])[then].get(label, "<no such call>") if first else alone
    return alone, after


def order_stage(ctx: Ctx, total: Report) -> None:
    specs = ["forward", "reverse", "nested-first", "top-first"] + [f"shuffle:{ctx.subseed('order', i)}" for i in range(12)]
    if not ctx.quick:
        specs += [f"shuffle:{ctx.subseed('order', i)}" for i in range(12, 44)]
    results = dict(pool_map(_order_worker, specs))
    base_spec = specs[0]
    base = results[base_spec]
    rep = Report(prop=ID, level="exploration", rule=RULE)
    c = rep.extra.setdefault("counters", {})
    c["order_processes"] = len(specs)
    reported: set = set()
    for path, calls in base.items():
        for label, want in calls.items():
            rep.evaluations += len(specs)
            c["order_calls_compared"] = c.get("order_calls_compared", 0) + len(specs)
            rep.nontrivial.add(case_hash(("order", path, label)))
            for spec in specs[1:]:
                got = results[spec].get(path, {}).get(label)
                if got == want:
                    continue
                kind = label.split(":")[0]
                sig = f"order:{'decode' if kind == 'dec' else 'encode'}-differs:{label.split(':')[1].rstrip('0123456789')}"
                c["order_differences"] = c.get("order_differences", 0) + 1
                if sig in reported:  # one minimised report per signature: the bisection costs ~12 fresh processes
                    continue
                reported.add(sig)
                # does the class alone already depend on which of ITS closures (reader / writer) is built first?
                alone0 = _run_order_child("list:" + path, flip=0)[path].get(label)
                alone1 = _run_order_child("list:" + path, flip=1)[path].get(label)
                if alone0 != alone1:
                    rep.add_failure(Failure(sig + ":reader-writer-creation-order",
                                            f"{path} {label}: alone in a fresh process the outcome is {str(alone0)[:160]!r} when the reader is built before the "
                                            f"writer (or the other way round, by class) and {str(alone1)[:160]!r} in the opposite order",
                                            {"kind": "order-self", "class": path, "label": label}, 1))
                    continue
                # which of the two orders is the deviating one, and which earlier class causes it?
                alone = alone0
                bad_spec = spec if got != alone else base_spec
                culprit = _bisect_culprit(bad_spec, path, label, alone)
                msg = (f"{path} {label}: outcome {want[:160]!r} in creation order {base_spec!r} but {got[:160]!r} in order {spec!r}; "
                       f"alone in a fresh process: {str(alone)[:160]!r}; minimal history: {culprit!r} created and used first")
                rep.add_failure(Failure(sig, msg, {"kind": "order", "first": culprit, "then": path, "label": label}, 2))
    if len(rep.samples) < 2:
        any_path = next(iter(base))
        rep.samples.append({"orders": specs, "class": any_path, "calls": {k: v[:80] for k, v in base[any_path].items()}})
    total.merge(rep)


def _bisect_culprit(spec: str, path: str, label: str, alone: str | None) -> str | None:
    from ..c19_orders import order_of

    order = order_of(spec)
    prefix = order[: order.index(path)]

    def differs(pre: list[str]) -> bool:
        if not pre:
            return False
        got = _run_order_child("list:" + ",".join(pre + [path]), only=[path])[path].get(label)
        return got != alone

    if not differs(prefix):
        return None
    while len(prefix) > 1:
        half = len(prefix) // 2
        a, b = prefix[:half], prefix[half:]
        if differs(b):
            prefix = b
        elif differs(a):
            prefix = a
        else:
            break  # needs classes from both halves: keep the whole prefix's last element as a hint
    return prefix[-1] if len(prefix) == 1 else ",".join(prefix[-3:])



# --------------------------------------------------------------------------- (5) many uses of one cached closure


def repetition(path: str, n: int) -> list[tuple[str, str]]:
    """n encodes and n decodes through ONE cached writer/reader: every result must equal the reference encoding / the
    first decoded value ("however often the same cached reader or writer has been used")."""
    cd = D.describe(D.resolve(path))
    tree = populated_tree(cd, 2, 0)
    want = ref_encode(cd, tree)
    value = to_entity(cd, tree)
    clear_caches()
    writer = K.entity_writer(cd.cls)
    reader = K.entity_reader(cd.cls)
    out = []
    first = None
    for i in range(n):
        buf = io.BytesIO()
        writer(buf, value)
        if buf.getvalue() != want:
            out.append(("repeat:encode-differs", f"{path}: call {i + 1} of the cached writer produced {buf.getvalue().hex()[:200]}, "
                        f"reference {want.hex()[:200]}"))
            break
    for i in range(n):
        src = io.BytesIO(want)
        got = reader(src)
        if first is None:
            first = got
        if src.tell() != len(want) or not py_equal(got, first) or not py_equal(got, value):
            out.append(("repeat:decode-differs", f"{path}: call {i + 1} of the cached reader returned {got!r:.300} "
                        f"(consumed {src.tell()} of {len(want)}), first call {first!r:.300}"))
            break
    clear_caches()
    return out


def varied_tree(cd: D.ClassDesc, i: int) -> dict:
    """Like populated_tree(cd, 1, .) but every string/bytes/uuid value is unique to i (values no table has seen before)."""
    from ..refcodec import Present

    t = {}
    for f in cd.fields:
        if f.kind == "struct":
            make = lambda f=f: varied_tree(f.struct, i)  # noqa: E731
        elif f.kind == "float64":
            make = lambda: (i + 1).to_bytes(8, "big")  # noqa: E731  (a finite, mostly subnormal, double)
        elif f.kind == "uuid":
            make = lambda: (i + 1).to_bytes(16, "big")  # noqa: E731
        elif f.kind in ("string", "bytes", "records"):
            make = lambda f=f: b"%s-%d" % (f.name[:6].encode(), i)  # noqa: E731
        elif f.kind == "bool":
            make = lambda: i & 1  # noqa: E731
        elif f.kind == "error_code":
            make = lambda: 3  # noqa: E731
        elif f.kind in ("datetime_i64", "timedelta_i64", "timedelta_i32", "int32", "int64", "uint32", "uint64"):
            make = lambda: i  # noqa: E731
        else:
            make = lambda: i % 100  # noqa: E731
        v = [make()] if f.array else make()
        t[f.name] = Present(v) if f.tag is not None else v
    return t


FLOOD_CLASSES = ["kio.schema.request_header.v2.header:RequestHeader", "kio.schema.metadata.v12.request:MetadataRequest",
                 "kio.schema.metadata.v12.response:MetadataResponse", "kio.schema.fetch.v12.request:FetchRequest",
                 "kio.schema.produce.v3.request:ProduceRequest", "kio.schema.find_coordinator.v4.request:FindCoordinatorRequest"]


def flood(path: str, n: int, keep: int = 64) -> list[tuple[str, str]]:
    """n DISTINCT values through one cached reader/writer pair, then the first `keep` inputs again: size-triggered state
    (interning tables, bounded caches, pools) must not change any result."""
    cd = D.describe(D.resolve(path))
    clear_caches()
    writer = K.entity_writer(cd.cls)
    reader = K.entity_reader(cd.cls)
    kept = []

    def one(i: int, where: str):
        data = ref_encode(cd, varied_tree(cd, i))
        src = io.BytesIO(data)
        got = reader(src)
        buf = io.BytesIO()
        writer(buf, got)
        if src.tell() != len(data) or buf.getvalue() != data:
            return [("flood:decode-encode-differs", f"{path}: value #{i} {where}: {len(data)} reference bytes {data.hex()[:160]} decoded to "
                     f"{got!r:.300} which encodes to {buf.getvalue().hex()[:160]}")]
        if i < keep:
            if where == "first pass":
                kept.append(got)
            elif not py_equal(got, kept[i]):
                return [("flood:decode-differs-afterwards", f"{path}: value #{i} decoded to {kept[i]!r:.300} at first and to {got!r:.300} "
                         f"after {n} distinct values went through the same reader")]
        return []

    try:
        for i in range(n):
            fails = one(i, "first pass")
            if fails:
                return fails
        for i in range(keep):
            fails = one(i, "second pass")
            if fails:
                return fails
        return []
    finally:
        clear_caches()


def failure_then_other_thread(path: str) -> list[tuple[str, str]]:
    """A call fails part-way on thread A (which stays alive, like a pooled worker); then thread B encodes and decodes the
    same value.  B's results must be the pristine ones - and B must get a result at all: a call that never returns
    (a lock the failed call still owns) is reported when B shows NO PROGRESS (same frame, same instruction) in two samples
    two seconds apart after a 20 s grace period, not on elapsed time alone."""
    import sys
    import threading
    import time

    from ..c19_orders import populated_tree

    cd = D.describe(D.resolve(path))
    tree = populated_tree(cd, 2, 0)
    data = ref_encode(cd, tree)
    value = to_entity(cd, tree)
    out: list = []
    clear_caches()
    release = threading.Event()
    failed = threading.Event()

    def thread_a():
        n_writes = len(RecordingSink_chunks(cd, value))
        for k in sorted({0, 1, 2, n_writes // 2, max(n_writes - 1, 0)}):
            try:
                K.entity_writer(cd.cls)(FaultySink(k, InjectedFault("connection reset")), value)
            except InjectedFault:
                pass
            except Exception:
                pass
        for k in (0, 1, 3):
            try:
                K.entity_reader(cd.cls)(FaultySource(data, k, InjectedFault("connection reset")))
            except InjectedFault:
                pass
            except Exception:
                pass
        failed.set()
        release.wait(120)  # stays alive while B works

    result: dict = {}

    def thread_b():
        try:
            result["enc"] = K.encode(cd.cls, value)
            result["dec"] = K.decode(cd.cls, data)
        except Exception as e:  # noqa: BLE001
            result["exc"] = e

    a = threading.Thread(target=thread_a, daemon=True)
    a.start()
    if not failed.wait(60):
        release.set()
        raise HarnessError("failure_then_other_thread: thread A did not finish its failing calls")
    b = threading.Thread(target=thread_b, daemon=True)
    b.start()
    b.join(20)
    if b.is_alive():
        def where():
            fr = sys._current_frames().get(b.ident)
            return None if fr is None else (id(fr), fr.f_lasti, f"{fr.f_code.co_filename.rsplit('/', 2)[-1]}:{fr.f_lineno} in {fr.f_code.co_name}")
        w1 = where()
        time.sleep(2)
        w2 = where()
        if b.is_alive() and w1 is not None and w1 == w2:
            out.append(("cross-thread:call-never-returns", f"{path}: after calls failed part-way on another (still living) thread, an encode/decode of the same value "
                        f"on this thread makes no progress - blocked at {w1[2]}"))
        release.set()
        return out
    release.set()
    a.join(10)
    if "exc" in result:
        e = result["exc"]
        out.append((f"cross-thread:raised:{K.exc_signature(e)}", f"{path}: after failed calls on another thread: {e!r:.300}"))
        return out
    if result.get("enc") != data:
        out.append(("cross-thread:encode-differs", f"{path}: after failed calls on another thread the value encodes as {result.get('enc', b'').hex()[:200]}"))
    got = result.get("dec")
    if got is None or not py_equal(got[0], value) or got[1] != len(data):
        out.append(("cross-thread:decode-differs", f"{path}: after failed calls on another thread the bytes decode as {got!r:.300}"))
    return out


def RecordingSink_chunks(cd, value) -> list:
    sink = RecordingSink()
    K.entity_writer(cd.cls)(sink, value)
    return list(sink.chunks)


def in_handler(path: str) -> list[tuple[str, str]]:
    """The same encode / decode while the calling thread is HANDLING an earlier exception - inside an except block, inside
    a finally block during unwinding, and inside __exit__ of a context manager that received the exception (how retry and
    clean-up code runs): the interpreter's "exception being handled" state is history like any other."""
    from ..c19_orders import populated_tree

    cd = D.describe(D.resolve(path))
    tree = populated_tree(cd, 2, 0)
    data = ref_encode(cd, tree)
    value = to_entity(cd, tree)
    out = []

    def both(where: str):
        try:
            enc = K.encode(cd.cls, value)
            dec = K.decode(cd.cls, data)
        except Exception as e:  # noqa: BLE001
            out.append((f"in-handler:raised:{K.exc_signature(e)}", f"{path} {where}: {e!r:.300}"))
            return
        if enc != data:
            out.append(("in-handler:encode-differs", f"{path}: encoded {where} the value gives {enc.hex()[:200]}, otherwise {data.hex()[:200]}"))
        if not py_equal(dec[0], value) or dec[1] != len(data):
            out.append(("in-handler:decode-differs", f"{path}: decoded {where} the bytes give {dec[0]!r:.300}"))

    try:
        K.entity_writer(cd.cls)(FaultySink(1, ConnectionResetError(104, "reset by peer")), value)
    except ConnectionResetError:
        both("inside the except block of a failed write")
    try:
        try:
            raise TimeoutError("timed out")
        finally:
            both("inside a finally block while an exception propagates")
    except TimeoutError:
        pass

    class _Cm:
        def __enter__(self):
            return self

        def __exit__(self, et, ev, tb):
            both("inside __exit__ of a context manager that received an exception")
            return True

    with _Cm():
        raise KeyError("x")
    both("after all handlers were left")
    return out


def tagged_pair_sequences(paths: list[str]) -> tuple[list[tuple[str, str]], int]:
    """For every ORDERED pair (X, Y) of the given classes: X's populated value is encoded and decoded, then Y's - Y's results
    must be the pristine ones whatever X was (the populated values of all classes share their small integers, strings and
    tag numbers, so anything keyed by tag or value alone conflates them)."""
    from ..c19_orders import populated_tree

    items = []
    for p in paths:
        cd = D.describe(D.resolve(p))
        tree = populated_tree(cd, 2, 0)
        items.append((cd, ref_encode(cd, tree), to_entity(cd, tree)))
    clear_caches()
    out, n = [], 0
    for cx, dx, vx in items:
        for cy, dy, vy in items:
            if cx is cy:
                continue
            n += 1
            try:
                K.encode(cx.cls, vx)
                K.decode(cx.cls, dx)
                enc = K.encode(cy.cls, vy)
                dec = K.decode(cy.cls, dy)
            except Exception as e:  # noqa: BLE001
                out.append((f"sequence:raised:{K.exc_signature(e)}", f"{cy.path} right after {cx.path}: {e!r:.300}"))
                continue
            if enc != dy:
                out.append(("sequence:encode-differs", f"{cy.path} encoded right after {cx.path}: {enc.hex()[:200]}, pristine {dy.hex()[:200]}"))
            elif not py_equal(dec[0], vy) or dec[1] != len(dy):
                out.append(("sequence:decode-differs", f"{cy.path} decoded right after {cx.path}: {dec[0]!r:.300}"))
            if len(out) >= 5:
                return out, n
    return out, n


def _cross_thread_worker(paths):
    rep = Report(prop=ID, level="exploration", rule=RULE)
    if paths and paths[0] == "__pairs__":
        fails, n = tagged_pair_sequences(paths[1:])
        rep.evaluations += 4 * n
        rep.nontrivial.add(case_hash(("tagged-pair-sequences", n)))
        rep.extra["counters"] = {"tagged_pair_sequences": n}
        for sig, msg in fails:
            rep.add_failure(Failure(sig, msg, {"kind": "tagged-pairs"}, 1))
        return rep
    for path in paths:
        rep.evaluations += 8
        for sig, msg in in_handler(path):
            rep.add_failure(Failure(sig, msg, {"kind": "in-handler", "class": path}, 1))
    for path in paths:
        rep.evaluations += 10
        rep.nontrivial.add(case_hash(("cross-thread", path)))
        for sig, msg in failure_then_other_thread(path):
            rep.add_failure(Failure(sig, msg, {"kind": "cross-thread", "class": path}, 1))
    rep.extra["counters"] = {"cross_thread_cases": len(paths)}
    return rep


VOLUME_CLASS_SMALL = "kio.schema.metadata.v12.request:MetadataRequest"


def volume_under_overlap(total_bytes: int) -> tuple[list[tuple[str, str]], int]:
    """More than `total_bytes` are decoded and encoded by one thread WHILE another thread is parked in the middle of a
    decode (a connection waiting for its peer): byte budgets, counters and pools that only reset when nothing is in
    flight must not change any result.  The big message is a 64 MiB bytes field; every round is compared in full.
    -> (failures, rounds)"""
    from ..c19_orders import populated_tree
    from ..refcodec import to_entity, zero_tree
    from ..treeprop import _blob_paths, sweep_tree

    big_cd = None
    for cls in D.all_classes():
        cd = D.describe(cls)
        hit = next(((p, f) for p, f in _blob_paths(cd) if len(p) == 1 and f.tag is None and not f.nullable), None)
        if hit and cd.flexible:
            big_cd, big_path = cd, hit[0]
            break
    if big_cd is None:
        raise HarnessError("volume stage: no flexible class with a top-level bytes field")
    blob = (b"volume-under-overlap-" * (1 << 22))[: 1 << 26]
    tree = sweep_tree(big_cd, big_path, blob)
    data = ref_encode(big_cd, tree)
    value = to_entity(big_cd, tree)
    small_cd = D.describe(D.resolve(VOLUME_CLASS_SMALL))
    small_tree = populated_tree(small_cd, 2, 0)
    small_data = ref_encode(small_cd, small_tree)
    small_value = to_entity(small_cd, small_tree)
    rounds = total_bytes // len(blob) + 3
    clear_caches()
    for cd in (big_cd, small_cd):
        K.entity_reader(cd.cls)
        K.entity_writer(cd.cls)

    def parked():
        return [K.decode(small_cd.cls, small_data), K.encode(small_cd.cls, small_value)]

    def busy():
        out = []
        for i in range(rounds):
            try:
                got, used = K.decode(big_cd.cls, data)
                if used != len(data) or got != value:
                    out.append(("volume:decode-differs", f"round {i} (after {i * len(blob) >> 20} MiB): {big_cd.path} decoded differently while another decode was in flight"))
                    break
                if K.encode(big_cd.cls, value) != data:
                    out.append(("volume:encode-differs", f"round {i} (after {i * len(blob) >> 20} MiB): {big_cd.path} encoded differently while another call was in flight"))
                    break
            except Exception as e:
                out.append((f"volume:raised:{K.exc_signature(e)}", f"round {i} (after {i * len(blob) >> 20} MiB decoded and encoded while another decode was in flight): "
                            f"{big_cd.path}: {e!r:.300}"))
                break
        return out

    dry = Scheduler([parked], [], kio_prefix()).run()
    fails = []
    for frac in (3, 2):  # park thread 0 a third and a half of the way through its decode
        r = Scheduler([parked, busy], [(max(dry.steps // 2 // frac, 1), 1)], kio_prefix(), timeout=900.0).run()
        for tid, e in r.errors:
            fails.append((f"volume:thread-raised:{K.exc_signature(e)}", f"thread {tid} raised {e!r:.300}"))
        if r.results[1]:
            fails.extend(r.results[1])
        res0 = r.results[0]
        if res0 is not None and (not py_equal(res0[0][0], small_value) or res0[0][1] != len(small_data) or res0[1] != small_data):
            fails.append(("volume:parked-thread-differs", f"{small_cd.path}: the parked thread's own results differ after the other thread moved {rounds * len(blob) >> 20} MiB"))
        if fails:
            break
    return fails, rounds


def _volume_worker(task):
    rep = Report(prop=ID, level="exploration", rule=RULE)
    fails, rounds = volume_under_overlap(task)
    rep.evaluations += 4 * rounds
    rep.nontrivial.add(case_hash(("volume", task)))
    rep.nontrivial.add(case_hash(("volume-rounds", rounds)))
    rep.extra["counters"] = {"volume_rounds": 2 * rounds}
    for sig, msg in fails:
        rep.add_failure(Failure(sig, msg, {"kind": "volume", "bytes": task}, 1))
    return rep


def _flood_or_volume(task):
    return _volume_worker(task[1]) if task[0] == "volume" else _flood_worker(task[1:])


def _flood_worker(task):
    path, n = task
    rep = Report(prop=ID, level="exploration", rule=RULE)
    fails = flood(path, n)
    rep.evaluations += n + 64
    rep.nontrivial.add(case_hash(("flood", path, n)))
    rep.extra["counters"] = {"flood_values": n}
    for sig, msg in fails:
        rep.add_failure(Failure(sig, msg, {"kind": "flood", "class": path, "n": n}, 1))
    return rep



def big_tree(cd: D.ClassDesc, depth: int = 0) -> dict:
    """populated_tree with 9000-byte strings/bytes and 400-item TAGGED arrays: tagged sections far above 8 KiB."""
    from ..refcodec import Present

    t = {}
    for f in cd.fields:
        n = 400 if (f.tag is not None and depth == 0) else 2
        if f.kind == "struct":
            make = lambda f=f: big_tree(f.struct, depth + 1) if depth < 1 else populated_tree(f.struct, 1, 0)  # noqa: E731
        elif f.kind == "float64":
            make = lambda: bytes.fromhex("3ff8000000000000")  # noqa: E731
        elif f.kind == "uuid":
            make = lambda: b"\x07" * 16  # noqa: E731
        elif f.kind in ("string", "bytes", "records"):
            make = lambda: b"B" * 9000  # noqa: E731
        elif f.kind == "bool":
            make = lambda: 1  # noqa: E731
        elif f.kind == "error_code":
            make = lambda: 3  # noqa: E731
        else:
            make = lambda: 6  # noqa: E731
        v = [make() for _ in range(n)] if f.array else make()
        t[f.name] = Present(v) if f.tag is not None else v
    return t


def size_sequence(path: str) -> list[tuple[str, str]]:
    """big, small, big, small through ONE cached writer/reader: the result for the small value must not depend on the
    size of what went through the closure before (capacity hints, pre-sized or recycled buffers)."""
    cd = D.describe(D.resolve(path))
    small, big = populated_tree(cd, 2, 0), big_tree(cd)
    want_small, want_big = ref_encode(cd, small), ref_encode(cd, big)
    v_small, v_big = to_entity(cd, small), to_entity(cd, big)
    clear_caches()
    writer, reader = K.entity_writer(cd.cls), K.entity_reader(cd.cls)
    out = []
    try:
        for step, (value, want) in enumerate([(v_big, want_big), (v_small, want_small), (v_big, want_big), (v_small, want_small)]):
            buf = io.BytesIO()
            writer(buf, value)
            if buf.getvalue() != want:
                out.append(("sizes:encode-differs", f"{path}: step {step} of big/small/big/small ({len(want_big)} / {len(want_small)} reference bytes): the writer produced "
                            f"{len(buf.getvalue())} bytes, reference has {len(want)}; first bytes {buf.getvalue()[:60].hex()}"))
                break
            src = io.BytesIO(want)
            got = reader(src)
            if src.tell() != len(want) or not py_equal(got, value):
                out.append(("sizes:decode-differs", f"{path}: step {step} of big/small/big/small: the reader returned a different value (consumed {src.tell()} of {len(want)})"))
                break
    finally:
        clear_caches()
    return out


def _repeat_worker(task):
    paths, n = task
    rep = Report(prop=ID, level="exploration", rule=RULE)
    c = {"repeat_calls": 0}
    for path in paths:
        for sig, msg in size_sequence(path):
            rep.add_failure(Failure(sig, msg, {"kind": "sizes", "class": path}, 1))
        rep.evaluations += 8
        fails = repetition(path, n)
        rep.evaluations += 2 * n
        c["repeat_calls"] += 2 * n
        rep.nontrivial.add(case_hash(("repeat", path, n)))
        for sig, msg in fails:
            rep.add_failure(Failure(sig, msg, {"kind": "repeat", "class": path, "n": n}, 1))
    rep.extra["counters"] = c
    return rep



def run(ctx: Ctx) -> Report:
    import time as _time

    total = Report(prop=ID, level="exploration", rule=RULE)
    shards = 16
    _t = [_time.time()]
    stage_s: dict = {}

    def lap(name: str) -> None:
        now = _time.time()
        stage_s[name] = round(now - _t[0], 1)
        _t[0] = now
    classes = D.quick_class_sample(ctx.seed, 60 if ctx.quick else 400)
    paths = [f"{c.__module__}:{c.__qualname__}" for c in classes]
    # (0) a failed call on one thread, then use on another.  First, because a call that never returns would also stall the
    # schedulers of the later stages (their time-outs are harness errors, never violations): if it is found here the run
    # ends with this violation.
    xt = list(dict.fromkeys(tag_bearing_messages() + paths))[: 16 if ctx.quick else 64]
    for rep in pool_map(_cross_thread_worker, [xt[i::16] for i in range(16) if xt[i::16]] + [["__pairs__"] + tag_bearing_classes()]):
        total.merge(rep)
    lap("failure_then_other_thread")
    if any(f.signature == "cross-thread:call-never-returns" for f in total.failures.values()):
        total.extra["stage_seconds"] = stage_s
        return total
    # (1) histories
    runs, steps = (160, 40) if ctx.quick else (2000, 50)
    groups = same_name_groups()
    any_groups = all_same_name_groups()
    tasks = [(ctx.subseed("hist", i), runs // shards, steps, paths[i::shards][:12], groups[i::shards] or groups,
              any_groups[i::shards]) for i in range(shards)]
    total.extra["all_same_name_groups"] = len(any_groups)
    total.extra["same_name_groups"] = len(groups)
    for rep in pool_map(_history_worker, tasks):
        total.merge(rep)
    lap("histories")
    # (2) fault positions, exhaustive per pair
    pairs = 32 if ctx.quick else 400
    fpaths = paths[: pairs]
    tasks = [(ctx.subseed("fault", i), fpaths[i::shards], 1) for i in range(shards)]
    for rep in pool_map(_fault_worker, tasks):
        total.merge(rep)
    lap("fault_positions")
    # (3) schedules
    n_sched = 1600 if ctx.quick else 40000
    items = _fixed_schedule_items(ctx.subseed("sched-items"))
    tasks = [(ctx.subseed("sched", i), n_sched // shards, items, None) for i in range(shards)]
    for rep in pool_map(_schedule_worker, tasks):
        total.merge(rep)
    lap("drawn_schedules")
    for rep in pool_map(_sweep_worker, sweep_tasks(ctx, items, shards)):
        total.merge(rep)
    lap("single_preemption_sweeps")
    for rep in pool_map(_pair_sweep_worker, pair_sweep_tasks(ctx, shards)):
        total.merge(rep)
    lap("pair_preemption_sweeps")
    for rep in pool_map(_cold_pair_worker, cold_pair_tasks(ctx)):
        total.merge(rep)
    lap("cold_creation_pair_sweeps")
    kp = kind_pair_tasks(ctx, shards)
    total.extra["kind_cover_classes"] = kind_cover_classes()
    for rep in pool_map(_sweep_worker, kp):
        total.merge(rep)
    lap("x_vs_y_sweeps")
    # (4) creation/use orders, each in a fresh process
    order_stage(ctx, total)
    lap("orders")
    # (5) many uses of one cached closure
    n_rep = 10000 if ctx.quick else 300000
    rpaths = list(dict.fromkeys(tag_bearing_messages() + paths))[:40]
    for rep in pool_map(_repeat_worker, [(rpaths[i::shards], n_rep) for i in range(shards)]):
        total.merge(rep)
    lap("repetition")
    n_flood = 70000 if ctx.quick else 600000
    for rep in pool_map(_flood_or_volume, [("flood", p, n_flood) for p in FLOOD_CLASSES] + [("volume", (1 << 31) if ctx.quick else (1 << 32) + (1 << 30), 0)]):
        total.merge(rep)
    lap("flood_and_volume")
    total.extra["stage_seconds"] = stage_s
    c = total.extra.get("counters", {})
    if c.get("preemptions_landed", 0) < c.get("schedules", 0) // 2:
        raise HarnessError(f"generator health: only {c.get('preemptions_landed')} preemptions landed in {c.get('schedules')} schedules")
    total.assumptions = [
        "C code (functools.cache internals, struct, BytesIO) is atomic at line granularity; threads <= 3, preemptions <= 3",
        "pristine result = reference encoding, cross-checked against kio with cold caches when a value enters the pool",
    ]
    return total


def replay(case):
    kind = case.get("kind")
    if kind == "history":
        return replay_ops(case["ops"])
    if kind == "fault":
        cd = D.describe(D.resolve(case["class"]))
        return [(s, m) for s, m, _c in fault_sweep(cd, tree_from_json(case["tree"]))[2]]
    if kind == "schedule":
        programs = [[tuple(op) for op in p] for p in case["programs"]]
        return eval_schedule(case["items"], programs, [tuple(p) for p in case["preemptions"]])[0]
    if kind == "sizes":
        return size_sequence(case["class"])
    if kind == "repeat":
        return repetition(case["class"], case["n"])
    if kind == "flood":
        return flood(case["class"], case["n"])
    if kind == "cross-thread":
        return failure_then_other_thread(case["class"])
    if kind == "in-handler":
        return in_handler(case["class"])
    if kind == "tagged-pairs":
        return tagged_pair_sequences(tag_bearing_classes())[0]
    if kind == "volume":
        return volume_under_overlap(case["bytes"])[0]
    if kind == "order-self":
        a0 = _run_order_child("list:" + case["class"], flip=0)[case["class"]].get(case["label"])
        a1 = _run_order_child("list:" + case["class"], flip=1)[case["class"]].get(case["label"])
        return [] if a0 == a1 else [("order:creation-order-within-class", f"{case['class']} {case['label']}: {str(a0)[:200]!r} vs {str(a1)[:200]!r}")]
    if kind == "order":
        alone, after = order_pair_differs(case.get("first"), case["then"], case["label"])
        if alone != after:
            return [(f"order:{'decode' if case['label'].startswith('dec') else 'encode'}-differs:{case['label'].split(':')[1].rstrip('0123456789')}",
                     f"{case['then']} {case['label']}: {alone[:200]!r} alone, {after[:200]!r} after {case.get('first')}")]
        return []
    if kind == "schedule-abs":
        programs = [[tuple(op) for op in p] for p in case["programs"]]
        return run_schedule(_schedule_items(case["items"]), programs, [tuple(p) for p in case["preemptions"]], cold=case.get("cold", True))[0]
    return []
