"""C14 -- the versions of an API form a coherent family (exhaustive)."""

from __future__ import annotations

import collections
import re

from .. import describe as D
from ..engine import Ctx, Failure, Report, case_hash
from ..pins import pins

ID = "C14"
RULE = (
    "exhaustive over all version modules on disk (666) grouped into (API, entity type) families (186). Within a module: "
    "all classes share __version__, __flexible__, __api_key__, __header_schema__; exactly one non-nested class; module "
    "path == (snake-case API name of the top-level class, v<__version__>, __type__.name). Across a family: versions "
    "contiguous and equal to the pinned range, flexibility monotone and equal to the pinned first flexible version, "
    "api key constant and equal to the pin; key <-> API bijective; requests and responses exist for exactly the same "
    "versions. Non-trivial = family with >= 2 versions; distinct = (api, type)."
)


def snake(name: str) -> str:
    """Own snake-casing of a CamelCase Kafka message name (acronym and digit aware)."""
    s = re.sub(r"([A-Z]+)([A-Z][a-z])", r"\1_\2", name)
    s = re.sub(r"([a-z0-9])([A-Z])", r"\1_\2", s)
    return s.lower()


def basic_name(class_name: str) -> str:
    s = snake(class_name)
    for suffix in ("_response", "_request"):
        if s.endswith(suffix):
            s = s[: -len(suffix)]
    return s


_MISSING = object()


def check_module(api: str, version: int, etype: str, modname: str):
    out = []
    classes = D.module_classes(modname)
    tops = [c for c in classes if c.__type__.name != "nested"]
    if len(tops) != 1:
        out.append(("module-top-level-count", f"{modname}: {len(tops)} non-nested classes"))
        return out, None
    top = tops[0]
    if top.__type__.name != etype:
        out.append(("path-type-mismatch", f"{modname}: top-level class has __type__ {top.__type__.name}"))
    if top.__version__ != version:
        out.append(("path-version-mismatch", f"{modname}: top-level class has __version__ {top.__version__}"))
    if basic_name(top.__name__) != api:
        out.append(("path-name-mismatch", f"{modname}: top-level class {top.__name__} -> {basic_name(top.__name__)!r}"))
    for c in classes:
        for attr in ("__version__", "__flexible__", "__api_key__", "__header_schema__"):
            a, b = getattr(c, attr, _MISSING), getattr(top, attr, _MISSING)
            if a is not b and a != b:
                out.append((f"module-classvar-differs:{attr}", f"{modname}:{c.__name__}.{attr}={a!r} but {top.__name__} has {b!r}"))
            elif attr == "__flexible__" and a is not b:
                out.append((f"module-classvar-differs:{attr}", f"{modname}:{c.__name__}.{attr}={a!r} vs {b!r}"))
        if c is not top and c.__type__.name != "nested":
            out.append(("nested-type", f"{modname}:{c.__name__}"))
    # every class REACHABLE from the top-level class through field types must be one of this module's own classes (an
    # imported class escapes the loop above) and carry the module's class variables
    seen: set = set()

    def reach(cd):
        for f in cd.fields:
            if f.kind == "struct" and f.struct.cls not in seen:
                seen.add(f.struct.cls)
                yield f.struct.cls
                yield from reach(f.struct)

    try:
        reachable = list(reach(D.describe(top)))
    except Exception as e:
        out.append((f"class-not-describable:{type(e).__name__}", f"{modname}: {e!r}"))
        reachable = []
    for c in reachable:
        if c.__module__ != modname:
            out.append(("reachable-class-defined-elsewhere", f"{modname}: {top.__name__} reaches {c.__module__}.{c.__qualname__}, which is not defined in this module"))
        for attr in ("__version__", "__flexible__", "__api_key__", "__header_schema__"):
            a, b = getattr(c, attr, _MISSING), getattr(top, attr, _MISSING)
            if a is not b and a != b:
                out.append((f"reachable-classvar-differs:{attr}", f"{modname}: {c.__module__}.{c.__name__}.{attr}={a!r} but {top.__name__} has {b!r}"))
    # the version PACKAGE (kio.schema.<api>.v<N>) must hand out this module's classes, not a neighbouring version's
    pkgname = modname.rsplit(".", 1)[0]
    try:
        import importlib

        pkg = importlib.import_module(pkgname)
        for name, obj in vars(pkg).items():
            if isinstance(obj, type) and getattr(obj, "__module__", "").startswith("kio.schema.") and not obj.__module__.startswith(pkgname + "."):
                out.append(("package-exports-foreign-class", f"{pkgname}.{name} is {obj.__module__}.{obj.__qualname__}"))
            if isinstance(obj, type) and obj.__module__ == modname and getattr(pkg, obj.__name__, None) is not obj:
                out.append(("package-export-shadowed", f"{pkgname}.{obj.__name__}"))
        exported = getattr(pkg, top.__name__, _MISSING)
        if exported is not _MISSING and exported is not top:
            out.append(("package-exports-other-class", f"{pkgname}.{top.__name__} is {getattr(exported, '__module__', '?')}.{getattr(exported, '__qualname__', '?')}, "
                        f"not the class defined in {modname}"))
    except Exception as e:
        out.append((f"package-not-importable:{type(e).__name__}", f"{pkgname}: {e!r}"))
    return out, top


def run(ctx: Ctx) -> Report:
    rep = Report(prop=ID, level="exploration", rule=RULE)
    rep.exhaustive = True
    fams = collections.defaultdict(dict)
    for api, version, etype, modname in D.walk_version_modules():
        rep.evaluations += 1
        fails, top = check_module(api, version, etype, modname)
        for sig, msg in fails:
            rep.add_failure(Failure(sig, msg, {"module": modname, "api": api, "version": version, "type": etype}, len(msg)))
        if top is not None:
            fams[(api, etype)][version] = top
    P = pins()["apis"]
    key_to_api = {}
    for (api, etype), vs in sorted(fams.items()):
        rep.evaluations += 1
        versions = sorted(vs)
        case = {"family": [api, etype]}
        if len(versions) >= 2:
            rep.nontrivial.add(case_hash((api, etype)))
        if versions != list(range(versions[0], versions[-1] + 1)):
            rep.add_failure(Failure("versions-not-contiguous", f"{api}/{etype}: {versions}", case))
        pin = P.get(api, {}).get(etype)
        if pin is None:
            rep.add_failure(Failure("family-not-pinned", f"{api}/{etype}", case))
            continue
        if (versions[0], versions[-1]) != (pin["min"], pin["max"]):
            rep.add_failure(Failure("version-range-vs-pin", f"{api}/{etype}: {versions[0]}..{versions[-1]}, pinned {pin['min']}..{pin['max']}", case))
        flex = [vs[v].__flexible__ for v in versions]
        if any(a and not b for a, b in zip(flex, flex[1:])):
            rep.add_failure(Failure("flexibility-reverts", f"{api}/{etype}: {list(zip(versions, flex))}", case))
        first = next((v for v in versions if vs[v].__flexible__), None)
        if first != pin["first_flexible"]:
            rep.add_failure(Failure("first-flexible-vs-pin", f"{api}/{etype}: first flexible {first}, pinned {pin['first_flexible']}", case))
        keys = {getattr(vs[v], "__api_key__", None) for v in versions}
        if len(keys) != 1:
            rep.add_failure(Failure("api-key-not-constant", f"{api}/{etype}: {keys}", case))
        elif etype in ("request", "response"):
            k = keys.pop()
            if k != pin["api_key"]:
                rep.add_failure(Failure("api-key-vs-pin", f"{api}/{etype}: {k} pinned {pin['api_key']}", case))
            if key_to_api.setdefault(k, api) != api:
                rep.add_failure(Failure("api-key-shared", f"key {k}: {key_to_api[k]} and {api}", case))
    for api in sorted({a for a, _ in fams}):
        req, resp = fams.get((api, "request")), fams.get((api, "response"))
        if (req is None) != (resp is None) or (req and sorted(req) != sorted(resp)):
            rep.add_failure(Failure("request-response-versions-differ",
                                    f"{api}: requests {sorted(req or [])} responses {sorted(resp or [])}", {"family": [api, "*"]}))
    pinned = {(a, t) for a, d in P.items() for t in d}
    if pinned != set(fams):
        rep.add_failure(Failure("families-vs-pins", f"{sorted(pinned ^ set(fams))[:6]}", {"family": None}))
    rep.extra["families"] = len(fams)
    rep.extra["modules"] = sum(len(v) for v in fams.values())
    rep.samples = [{"family": list(k), "versions": sorted(v), "flexible_from": next((x for x in sorted(v) if v[x].__flexible__), None)}
                   for k, v in list(sorted(fams.items()))[::40]]
    return rep


def replay(case):
    if "module" in case:
        return check_module(case["api"], case["version"], case["type"], case["module"])[0]
    rep = run(Ctx(prop=ID, tier="quick", seed=1))
    return [(f.signature, f.message) for f in rep.failures.values()]
