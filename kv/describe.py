"""Independent description of kio schema classes.

Reads a generated dataclass through ``dataclasses.fields`` and the annotation objects
only.  Deliberately imports nothing from ``kio.serial`` -- the reflective helpers there
(`_introspect`, `_implicit_defaults`) are the code under test for C02/C03/C13.
"""

from __future__ import annotations

import dataclasses
import importlib
import os
import types
import typing
import uuid
from dataclasses import dataclass
from functools import lru_cache

REPO = os.environ.get("KV_REPO", "/repo")
SCHEMA_ROOT = os.path.join(REPO, "src", "kio", "schema")

PRIMITIVE_KINDS = (
    "int8", "int16", "int32", "int64",
    "uint8", "uint16", "uint32", "uint64",
    "float64", "bool", "string", "bytes", "records", "uuid",
    "error_code", "timedelta_i32", "timedelta_i64", "datetime_i64",
)
# Kafka types that have a wire-level null.
NULLABLE_KINDS = ("string", "bytes", "records", "uuid", "datetime_i64")

INT_RANGES = {
    "int8": (-(2**7), 2**7 - 1),
    "int16": (-(2**15), 2**15 - 1),
    "int32": (-(2**31), 2**31 - 1),
    "int64": (-(2**63), 2**63 - 1),
    "uint8": (0, 2**8 - 1),
    "uint16": (0, 2**16 - 1),
    "uint32": (0, 2**32 - 1),
    "uint64": (0, 2**64 - 1),
}


class DescribeError(Exception):
    """The class cannot be described (an incoherent declaration)."""


@dataclass(frozen=True)
class FieldDesc:
    name: str
    kind: str  # one of PRIMITIVE_KINDS or "struct"
    nullable: bool  # the field itself (for arrays: the array) may be null
    array: bool
    item_nullable: bool  # for arrays: items may be null (only uuid in practice)
    struct: "ClassDesc | None"
    tag: int | None
    has_default: bool
    default: object
    pytype: object  # innermost annotation (python type object)

    @property
    def tagged(self) -> bool:
        return self.tag is not None


@dataclass(frozen=True)
class ClassDesc:
    cls: type
    path: str  # "module:Class"
    flexible: bool
    is_request_header: bool
    fields: tuple[FieldDesc, ...]

    @property
    def plain_fields(self) -> tuple[FieldDesc, ...]:
        return tuple(f for f in self.fields if f.tag is None)

    @property
    def tagged_fields(self) -> tuple[FieldDesc, ...]:
        return tuple(sorted((f for f in self.fields if f.tag is not None), key=lambda f: f.tag))

    def __hash__(self) -> int:
        return hash(self.path)

    def __eq__(self, other: object) -> bool:
        return isinstance(other, ClassDesc) and other.cls is self.cls


def _strip_optional(ann: object) -> tuple[object, bool]:
    origin = typing.get_origin(ann)
    if origin is types.UnionType or origin is typing.Union:
        args = typing.get_args(ann)
        non_none = [a for a in args if a is not type(None)]
        if len(non_none) != 1 or len(args) != 2:
            raise DescribeError(f"unsupported union {ann!r}")
        return non_none[0], True
    return ann, False


def _annotations(cls: type) -> dict[str, object]:
    anns = {}
    for f in dataclasses.fields(cls):
        t = f.type
        if isinstance(t, str):
            t = typing.get_type_hints(cls)[f.name]
        anns[f.name] = t
    return anns


@lru_cache(maxsize=None)
def describe(cls: type) -> ClassDesc:
    if not dataclasses.is_dataclass(cls):
        raise DescribeError(f"{cls!r} is not a dataclass")
    anns = _annotations(cls)
    out = []
    for f in dataclasses.fields(cls):
        ann = anns[f.name]
        outer, outer_null = _strip_optional(ann)
        array = False
        item_nullable = False
        nullable = outer_null
        inner = outer
        if typing.get_origin(outer) is tuple:
            args = typing.get_args(outer)
            if len(args) != 2 or args[1] is not Ellipsis:
                raise DescribeError(f"{cls.__name__}.{f.name}: bad tuple args {args!r}")
            array = True
            inner, item_nullable = _strip_optional(args[0])
        elif typing.get_origin(outer) is not None:
            raise DescribeError(f"{cls.__name__}.{f.name}: unsupported annotation {ann!r}")
        kafka_type = f.metadata.get("kafka_type")
        tag = f.metadata.get("tag")
        struct = None
        if dataclasses.is_dataclass(inner):
            kind = "struct"
            if kafka_type is not None:
                raise DescribeError(f"{cls.__name__}.{f.name}: struct field with kafka_type")
            struct = describe(inner)
        else:
            if kafka_type is None:
                raise DescribeError(f"{cls.__name__}.{f.name}: missing kafka_type")
            kind = kafka_type
        has_default = f.default is not dataclasses.MISSING
        if f.default_factory is not dataclasses.MISSING:
            raise DescribeError(f"{cls.__name__}.{f.name}: default_factory not expected")
        out.append(
            FieldDesc(
                name=f.name,
                kind=kind,
                nullable=nullable,
                array=array,
                item_nullable=item_nullable,
                struct=struct,
                tag=tag,
                has_default=has_default,
                default=f.default if has_default else None,
                pytype=inner,
            )
        )
    return ClassDesc(
        cls=cls,
        path=f"{cls.__module__}:{cls.__qualname__}",
        flexible=bool(cls.__flexible__),
        is_request_header=(
            cls.__module__.startswith("kio.schema.request_header.")
            or cls.__name__ == "RequestHeader"
        ),
        fields=tuple(out),
    )


# ---------------------------------------------------------------------------
# Walking the schema package on disk (independent of kio.schema.index and of
# codegen.introspect_schema).


def walk_version_modules() -> list[tuple[str, int, str, str]]:
    """-> sorted list of (api_dir, version, type_name, module_name)."""
    found = []
    for api in sorted(os.listdir(SCHEMA_ROOT)):
        api_dir = os.path.join(SCHEMA_ROOT, api)
        if not os.path.isdir(api_dir) or api.startswith("__"):
            continue
        for vdir in sorted(os.listdir(api_dir)):
            if not (vdir.startswith("v") and vdir[1:].isdigit()):
                continue
            vpath = os.path.join(api_dir, vdir)
            if not os.path.isdir(vpath):
                continue
            for fn in sorted(os.listdir(vpath)):
                if fn.endswith(".py") and fn != "__init__.py":
                    found.append(
                        (api, int(vdir[1:]), fn[:-3], f"kio.schema.{api}.{vdir}.{fn[:-3]}")
                    )
    return found


def module_classes(module_name: str) -> list[type]:
    mod = importlib.import_module(module_name)
    return [
        v
        for v in vars(mod).values()
        if isinstance(v, type) and dataclasses.is_dataclass(v) and v.__module__ == module_name
    ]


@lru_cache(maxsize=None)
def all_classes() -> tuple[type, ...]:
    out = []
    for _api, _v, _t, modname in walk_version_modules():
        out.extend(module_classes(modname))
    return tuple(out)


def resolve(path: str) -> type:
    modname, clsname = path.split(":")
    return getattr(importlib.import_module(modname), clsname)


def shape_key(cd: ClassDesc, fd: FieldDesc) -> tuple:
    return (fd.kind, cd.flexible, fd.nullable, fd.tagged, fd.array, fd.item_nullable, fd.has_default)


def quick_class_sample(seed: int, extra: int = 150) -> list[type]:
    """Greedy set cover of field shapes + all headers + a seed-chosen sample."""
    import random

    classes = list(all_classes())
    shapes: dict[type, set] = {}
    for c in classes:
        cd = describe(c)
        shapes[c] = {shape_key(cd, f) for f in cd.fields}
    uncovered = set().union(*shapes.values())
    picked: list[type] = []
    while uncovered:
        best = max(classes, key=lambda c: (len(shapes[c] & uncovered), -len(shapes[c]), c.__module__))
        gain = shapes[best] & uncovered
        if not gain:
            break
        picked.append(best)
        uncovered -= gain
    for c in classes:
        if ".request_header." in c.__module__ or ".response_header." in c.__module__:
            if c not in picked:
                picked.append(c)
    # every class that declares a tagged field (36 in the 3.9.0 schema): the tagged section is where most of the
    # subtle behaviour lives, and these classes are too few for a random sample to be relied upon
    for c in classes:
        if c not in picked and any(f.tag is not None for f in describe(c).fields):
            picked.append(c)
    rng = random.Random(seed)  # harness-level class sampling only, a pure function of the seed
    rest = [c for c in classes if c not in set(picked)]
    rng.shuffle(rest)
    picked.extend(rest[:extra])
    return picked
