"""Runner plumbing shared by all property checks: context, failures, evidence, replay,
process pool, known findings."""

from __future__ import annotations

import hashlib
import json
import multiprocessing
import os
import sys
import time
import traceback
import zlib
from collections import Counter
from dataclasses import dataclass, field
from pathlib import Path

ROOT = Path(__file__).resolve().parent.parent
# KV_EVIDENCE_DIR / KV_REPLAY_DIR: sensitivity runs against a snapshot (tools/mutate.py) write elsewhere, so that they never
# touch the evidence of the registered commands
EVIDENCE_DIR = Path(os.environ.get("KV_EVIDENCE_DIR") or ROOT / "evidence")
REPLAY_DIR = Path(os.environ.get("KV_REPLAY_DIR") or ROOT / "replays")
CORPUS_DIR = ROOT / "corpus"
KNOWN_FINDINGS = ROOT / "known_findings.json"
NPROC = int(os.environ.get("KV_NPROC", "16"))


class HarnessError(Exception):
    """Something is wrong with the check itself (exit 2, never a VIOLATION)."""


@dataclass
class Failure:
    signature: str  # root-cause bucket
    message: str
    replay: dict  # JSON-able case description, enough for --replay
    size: int = 0  # for "keep the smallest per signature"


@dataclass
class Ctx:
    prop: str
    tier: str
    seed: int
    t0: float = field(default_factory=time.time)

    @property
    def quick(self) -> bool:
        return self.tier == "quick"

    def subseed(self, *parts: object) -> int:
        h = zlib.crc32(repr((self.seed,) + parts).encode())
        return h


@dataclass
class Report:
    prop: str
    level: str
    rule: str
    evaluations: int = 0
    nontrivial: set = field(default_factory=set)  # hashes of distinct non-trivial cases
    samples: list = field(default_factory=list)
    labels: Counter = field(default_factory=Counter)
    failures: dict = field(default_factory=dict)  # signature -> Failure
    known_hits: dict = field(default_factory=dict)  # finding id -> text
    extra: dict = field(default_factory=dict)
    assumptions: list = field(default_factory=list)
    exhaustive: bool = False
    nontrivial_count_override: int | None = None

    def add_failure(self, f: Failure) -> None:
        cur = self.failures.get(f.signature)
        if cur is None or f.size < cur.size:
            self.failures[f.signature] = f

    def merge(self, other: "Report") -> None:
        self.evaluations += other.evaluations
        self.nontrivial |= other.nontrivial
        self.labels.update(other.labels)
        for f in other.failures.values():
            self.add_failure(f)
        self.known_hits.update(other.known_hits)
        if len(self.samples) < 8:
            self.samples.extend(other.samples[: 8 - len(self.samples)])
        for k, v in other.extra.items():
            if isinstance(v, (int, float)) and isinstance(self.extra.get(k, 0), (int, float)):
                self.extra[k] = self.extra.get(k, 0) + v
            elif isinstance(v, list):
                self.extra.setdefault(k, [])
                if len(self.extra[k]) < 50:
                    self.extra[k].extend(v[: 50 - len(self.extra[k])])
            elif isinstance(v, dict):
                d = self.extra.setdefault(k, {})
                for kk, vv in v.items():
                    if isinstance(vv, (int, float)):
                        d[kk] = d.get(kk, 0) + vv
                    else:
                        d.setdefault(kk, vv)
            else:
                self.extra.setdefault(k, v)


def case_hash(obj: object) -> int:
    if isinstance(obj, (bytes, bytearray)):
        data = bytes(obj)
    else:
        data = repr(obj).encode("utf-8", "backslashreplace")
    return int.from_bytes(hashlib.blake2b(data, digest_size=8).digest(), "big")


# --------------------------------------------------------------------------- findings


def load_known_findings(prop: str) -> list[dict]:
    if not KNOWN_FINDINGS.exists():
        return []
    data = json.loads(KNOWN_FINDINGS.read_text())
    return [e for e in data.get("findings", []) if e.get("property") == prop]


def open_findings(prop: str) -> dict[str, dict]:
    return {e["id"]: e for e in load_known_findings(prop) if e.get("status") == "open"}


# --------------------------------------------------------------------------- pool


def _init_worker() -> None:
    sys.setrecursionlimit(10000)


def pool_map(fn, tasks: list, chunksize: int = 1) -> list:
    """Ordered parallel map; exceptions in workers are harness errors."""
    if not tasks:
        return []
    n = min(NPROC, len(tasks))
    if n <= 1 or os.environ.get("KV_SERIAL"):
        return [fn(t) for t in tasks]
    ctx = multiprocessing.get_context("fork")
    with ctx.Pool(n, initializer=_init_worker) as pool:
        return pool.map(fn, tasks, chunksize=chunksize)


def pool_imap_unordered(fn, tasks: list, chunksize: int = 1):
    if not tasks:
        return
    n = min(NPROC, len(tasks))
    if n <= 1 or os.environ.get("KV_SERIAL"):
        for t in tasks:
            yield fn(t)
        return
    ctx = multiprocessing.get_context("fork")
    with ctx.Pool(n, initializer=_init_worker) as pool:
        yield from pool.imap_unordered(fn, tasks, chunksize=chunksize)


# --------------------------------------------------------------------------- output


def _jsonable(o: object) -> object:
    if isinstance(o, (bytes, bytearray)):
        return {"hex": bytes(o).hex()}
    if isinstance(o, (set, frozenset)):
        return sorted(_jsonable(x) for x in o)
    if isinstance(o, tuple):
        return [_jsonable(x) for x in o]
    if isinstance(o, Counter):
        return dict(o)
    return repr(o)


def write_replay(prop: str, failure: Failure, seed: int) -> Path:
    d = REPLAY_DIR / prop
    d.mkdir(parents=True, exist_ok=True)
    h = hashlib.blake2b(failure.signature.encode(), digest_size=6).hexdigest()
    p = d / f"{prop}-{h}.json"
    doc = {
        "property": prop,
        "signature": failure.signature,
        "message": failure.message[:20000],
        "seed": seed,
        "case": failure.replay,
    }
    p.write_text(json.dumps(doc, indent=1, default=_jsonable))
    return p


def _bounded_samples(samples: list, keep: int = 8, limit: int = 6000) -> list:
    """The evidence file stays small: the `keep` smallest samples, each rendered in at most `limit` characters (a sample
    that is larger - a 300-record batch, a 128 KiB aligned batch - is kept as a truncated rendering with its real size)."""
    rendered = []
    for smp in samples:
        try:
            text = json.dumps(smp, default=_jsonable)
        except Exception:
            text = repr(smp)
        rendered.append((len(text), text, smp))
    rendered.sort(key=lambda r: r[0])
    out = []
    for size, text, smp in rendered[:keep]:
        out.append(smp if size <= limit else {"truncated_sample": text[:limit], "full_size_chars": size})
    return out


def finish(ctx: Ctx, rep: Report) -> int:
    wall = time.time() - ctx.t0
    distinct = (
        rep.nontrivial_count_override
        if rep.nontrivial_count_override is not None
        else len(rep.nontrivial)
    )
    coverage = {
        "evaluations": rep.evaluations,
        "distinct_nontrivial": distinct,
        "rule": rep.rule,
        "samples": _bounded_samples(rep.samples),
        "labels": dict(sorted(rep.labels.items())),
        "exhaustive": rep.exhaustive,
    }
    coverage.update(rep.extra)
    doc = {
        "property_id": ctx.prop,
        "tier": ctx.tier,
        "seed": ctx.seed,
        "level": rep.level,
        "coverage": coverage,
        "assumptions": rep.assumptions,
        "wall_s": round(wall, 3),
        "violations": len(rep.failures),
        "known_findings_reproduced": sorted(rep.known_hits),
    }
    EVIDENCE_DIR.mkdir(exist_ok=True)
    (EVIDENCE_DIR / f"{ctx.prop}.json").write_text(json.dumps(doc, indent=1, default=_jsonable) + "\n")
    for fid, text in sorted(rep.known_hits.items()):
        print(f"KNOWN-FINDING: property={ctx.prop} {fid}: {text}")
    code = 0
    for sig, f in sorted(rep.failures.items()):
        path = write_replay(ctx.prop, f, ctx.seed)
        print(f"VIOLATION property={ctx.prop} replay={path}")
        print(f"  signature: {sig}")
        print(f"  {f.message[:2000]}")
        code = 1
    print(
        f"[{ctx.prop}/{ctx.tier}] evaluations={rep.evaluations} distinct_nontrivial={distinct} "
        f"violations={len(rep.failures)} known={len(rep.known_hits)} wall={wall:.1f}s"
    )
    if code == 0:
        if rep.evaluations < 1 or distinct < 2:
            print("HARNESS ERROR: too few (non-trivial) cases were explored", file=sys.stderr)
            return 2
    return code


def harness_main(fn) -> int:
    try:
        return fn()
    except HarnessError as e:
        print(f"HARNESS ERROR: {e}", file=sys.stderr)
        return 2
    except Exception:
        traceback.print_exc()
        print("HARNESS ERROR: unexpected exception in the check itself", file=sys.stderr)
        return 2
