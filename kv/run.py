"""Entry point: python -m kv.run <ID> --tier quick|thorough   |   --replay <file>"""

from __future__ import annotations

import argparse
import importlib
import json
import os
import sys
import time

from .engine import Ctx, HarnessError, finish, harness_main


def _arm_watchdog(prop: str, seconds: int) -> None:
    """Outer wall-clock guard: expiry is a harness error (exit 2, inconclusive), never a VIOLATION."""
    import multiprocessing
    import signal

    def fire(signum, frame):
        print(f"HARNESS ERROR: {prop}: watchdog expired after {seconds}s (inconclusive)", file=sys.stderr, flush=True)
        for child in multiprocessing.active_children():
            child.kill()
        os._exit(2)

    signal.signal(signal.SIGALRM, fire)
    signal.alarm(seconds)


def replay_corpus(prop: str, mod, rep) -> None:
    """Seconds-long regression tier: every saved case under corpus/<ID>/*.json (minimised failures from development,
    from the sensitivity mutants and from the seeded changes) is re-evaluated through the check's own predicate."""
    from .engine import CORPUS_DIR, Failure

    d = CORPUS_DIR / prop
    n = 0
    if d.exists() and hasattr(mod, "replay"):
        for p in sorted(d.glob("*.json")):
            doc = json.loads(p.read_text())
            n += 1
            try:
                res = mod.replay(doc["case"])
            except Exception as e:  # a corpus case the current predicate cannot evaluate is a harness problem ...
                if rep.failures:  # ... unless the search has already established a violation (e.g. calls that never return
                    # also stall the replay of saved schedules): report that violation rather than masking it
                    rep.extra["corpus_cases_not_replayable"] = rep.extra.get("corpus_cases_not_replayable", 0) + 1
                    continue
                raise HarnessError(f"corpus case {p} cannot be replayed: {e!r}") from None
            for sig, msg in res or []:
                rep.add_failure(Failure("corpus:" + sig, f"[{p.name}] {msg}", doc["case"], len(msg)))
    rep.extra["corpus_cases_replayed"] = n


def main() -> int:
    ap = argparse.ArgumentParser()
    ap.add_argument("prop")
    ap.add_argument("--tier", default=os.environ.get("VERIF_TIER", "quick"))
    ap.add_argument("--replay")
    args = ap.parse_args()
    prop = args.prop.upper()
    mod = importlib.import_module(f"kv.props.{prop.lower()}")
    seed = int(os.environ.get("VERIF_SEED", "1") or "1")

    if args.replay:
        doc = json.loads(open(args.replay).read())
        res = mod.replay(doc["case"])
        if res:
            for sig, msg in res:
                print(f"VIOLATION property={prop} replay={args.replay}")
                print(f"  signature: {sig}\n  {msg}")
            return 1
        print(f"replay of {args.replay}: property held")
        return 0

    if args.tier not in ("quick", "thorough"):
        raise HarnessError(f"bad tier {args.tier}")
    ctx = Ctx(prop=prop, tier=args.tier, seed=seed, t0=time.time())
    _arm_watchdog(prop, int(os.environ.get("KV_WATCHDOG_S", "1500" if args.tier == "quick" else "21600")))
    rep = mod.run(ctx)
    replay_corpus(prop, mod, rep)
    return finish(ctx, rep)


if __name__ == "__main__":
    sys.exit(harness_main(main))
