"""Independent reading of a Kafka message definition (upstream JSON format): what classes, fields, flags,
defaults and bytes a faithful translation must produce for each declared version.

Shares nothing with /repo/codegen.  Conventions of kio that are design choices (and are therefore taken as the
expected representation, per the generator's own comments) are marked CONVENTION.
"""

from __future__ import annotations

import builtins
import datetime
import re
from dataclasses import dataclass, field

from .pins import expected_header

_BUILTINS = frozenset(dir(builtins))

# CONVENTION: field names that denote durations / timestamps / error codes (kio maps them to richer types and drops
# the "Ms" suffix).  The lists are kio's documented special cases.
TIMEDELTA_NAMES = frozenset({"timeoutMs", "TimeoutMs", "ThrottleTimeMs", "MaxWaitMs", "SessionLifetimeMs", "TransactionTimeoutMs",
                             "MaxLifetimeMs", "SessionTimeoutMs", "RebalanceTimeoutMs", "ExpiryTimePeriodMs", "RenewPeriodMs",
                             "RetentionTimeMs", "HeartbeatIntervalMs", "PushIntervalMs"})
DATETIME_NAMES = frozenset({"IssueTimestampMs", "ExpiryTimestampMs", "MaxTimestampMs", "TransactionStartTimeMs", "LogAppendTimeMs"})
ERROR_NAMES = frozenset({"ErrorCode", "PartitionErrorCode"})
PRIMS = ("bool", "int8", "int16", "uint16", "int32", "uint32", "int64", "uint64", "float64", "string", "uuid", "bytes", "records")
WIRE_NULLABLE = ("string", "bytes", "records")
ENTITY_TYPES = {"brokerId": ("BrokerId", "int32"), "groupId": ("GroupId", "string"), "producerId": ("ProducerId", "int64"),
                "topicName": ("TopicName", "string"), "transactionalId": ("TransactionalId", "string")}


def parse_range(text: str | None, top: int | None = None) -> set[int] | None:
    """'N', 'N-M', 'N+', 'none' -> set of ints (open ranges capped at `top`)."""
    if text is None:
        return None
    if text == "none":
        return set()
    if text.endswith("+"):
        lo = int(text[:-1])
        return set(range(lo, (top if top is not None else 400) + 1))
    if "-" in text:
        lo, hi = text.split("-", 1)
        return set(range(int(lo), int(hi) + 1))
    return {int(text)}


def split_words(name: str) -> list[str]:
    """CamelCase -> words; acronyms stay together, digits stick to the preceding letters ("V3AndBelow" -> v3 and below)."""
    words = re.findall(r"[A-Z]+(?![a-z])[0-9]*|[A-Z]?[a-z]+[0-9]*|[0-9]+", name)
    return [w.lower() for w in words]


def python_name(json_name: str) -> str:
    """CONVENTION: snake_case, with a trailing underscore when the result shadows a Python builtin."""
    s = "_".join(split_words(json_name))
    return s + "_" if s in _BUILTINS else s


@dataclass
class XField:
    """Expected field of an expected class at one version."""
    name: str
    kind: str  # kv.describe kinds ("struct" for structs)
    array: bool
    nullable: bool
    item_nullable: bool
    struct: str | None
    tag: int | None
    has_explicit_default: bool
    default: object  # python-level expected default (see resolve_default); None if no default and untagged
    default_known: bool  # False when the definition does not determine the default (untagged, no explicit default)
    entity_type: str | None
    json_name: str = ""
    nullability_free: bool = False  # CONVENTION: ignorable tagged fields without default may or may not be Optional


@dataclass
class XClass:
    name: str
    top_level: bool
    fields: list[XField] = field(default_factory=list)


@dataclass
class XModule:
    api: str  # package directory name
    version: int
    etype: str
    flexible: bool
    api_key: int | None
    header: tuple[str, int] | None
    top: str
    classes: dict[str, XClass] = field(default_factory=dict)  # in any order


def api_dir(defn: dict) -> str:
    s = python_name(defn["name"]).rstrip("_") if False else "_".join(split_words(defn["name"]))
    for suffix in ("_response", "_request"):
        if s.endswith(suffix):
            s = s[: -len(suffix)]
    return s


def field_kind(f: dict) -> tuple[str, bool, str | None, str]:
    """-> (kind, array, struct name, python field name)."""
    t = f["type"]
    array = t.startswith("[]")
    base = t[2:] if array else t
    name = f["name"]
    if base in PRIMS:
        kind = {"bool": "bool"}.get(base, base)
        pyname = python_name(name)
        if not array:
            if name in ERROR_NAMES:
                kind = "error_code"
            elif name in TIMEDELTA_NAMES:
                kind = {"int32": "timedelta_i32", "int64": "timedelta_i64"}[base]
                pyname = python_name(name[:-2])
            elif name in DATETIME_NAMES:
                kind = "datetime_i64"
                pyname = python_name(name[:-2])
        return kind, array, None, pyname
    return "struct", array, base, python_name(name)


def parse_default(kind: str, raw) -> object:
    """Explicit default -> expected Python-level value (ints, bools, str, float, None, timedelta)."""
    if raw == "null":
        return None
    if kind == "bool":
        if isinstance(raw, bool):
            return raw
        return {"true": True, "false": False}[str(raw).lower()]
    if kind in ("int8", "int16", "uint16", "int32", "uint32", "int64", "uint64", "error_code"):
        return int(raw, 0) if isinstance(raw, str) else int(raw)
    if kind == "float64":
        return float(raw)
    if kind == "string":
        return str(raw)
    if kind in ("timedelta_i32", "timedelta_i64"):
        return datetime.timedelta(milliseconds=int(raw, 0) if isinstance(raw, str) else int(raw))
    if kind == "datetime_i64":
        if str(raw) == "-1":
            return None
        raise ValueError("unsupported datetime default")
    raise ValueError(f"no default syntax for {kind}")


EPOCH = datetime.datetime(1970, 1, 1, tzinfo=datetime.timezone.utc)
ZERO = {"datetime_i64": EPOCH, "bool": False, "float64": 0.0, "string": "", "bytes": b"", "records": None, "uuid": None,
        "timedelta_i32": datetime.timedelta(0), "timedelta_i64": datetime.timedelta(0)}


def expected_modules(defn: dict) -> list[XModule]:
    valid = sorted(parse_range(defn["validVersions"]))
    top_v = valid[-1]
    flex = parse_range(defn["flexibleVersions"], top_v)
    commons = {c["name"]: c for c in defn.get("commonStructs", [])}
    out = []
    for v in valid:
        etype = defn["type"]
        flexible = v in flex
        api_key = defn.get("apiKey") if etype in ("request", "response") else None
        header = expected_header(etype, api_key, v, flexible) if etype in ("request", "response") else None
        mod = XModule(api_dir(defn), v, etype, flexible, api_key, header, defn["name"])

        def build(name: str, fields: list[dict], top_level: bool) -> None:
            if name in mod.classes:
                return
            xc = XClass(name, top_level)
            mod.classes[name] = xc
            for f in fields:
                fv = parse_range(f.get("versions", f.get("taggedVersions")), top_v)
                if v not in fv:
                    continue
                kind, array, struct, pyname = field_kind(f)
                nv = parse_range(f.get("nullableVersions"), top_v) or set()
                tv = parse_range(f.get("taggedVersions"), top_v) or set()
                tag = f["tag"] if v in tv else None
                nullable = v in nv
                item_nullable = False
                if kind == "uuid":
                    # CONVENTION: uuid is always Optional in Python (the zero UUID is None)
                    nullable, item_nullable = (not array), array
                has_explicit = "default" in f and f["default"] is not None
                default_known = True
                if has_explicit:
                    default = parse_default(kind, f["default"]) if kind != "struct" else None
                    if kind == "datetime_i64" and default is None:
                        nullable = True  # CONVENTION: a -1 default denotes "no timestamp" and is represented as None
                elif array:
                    default = ()
                    default_known = tag is not None
                elif tag is not None:
                    # CONVENTION (generate_schema.nested_entity_has_only_defaults): a tagged inline struct whose fields all
                    # carry explicit defaults defaults to the struct of those defaults, ignorable or not
                    all_defaults = kind == "struct" and not array and "fields" in f and all(
                        not g["type"].startswith("[]") and "fields" not in g and g.get("default") is not None for g in f["fields"])
                    if all_defaults:
                        default = "STRUCT_OF_DEFAULTS"
                    elif f.get("ignorable"):
                        # CONVENTION (generate_schema._format_default_for_tagged): ignorable tagged fields without a
                        # default are optional: numbers/bools/error codes get their zero value, everything else None
                        if kind in ("int8", "int16", "uint16", "int32", "uint32", "int64", "uint64"):
                            default = 0
                        elif kind == "float64":
                            default = 0.0
                        elif kind == "bool":
                            default = False
                        elif kind == "error_code":
                            default = 0
                        else:
                            default = None
                            if kind in WIRE_NULLABLE or kind == "datetime_i64":
                                nullable = True
                    else:
                        default = "STRUCT_OF_DEFAULTS" if kind == "struct" else (0 if kind not in ZERO else ZERO[kind])
                else:
                    default = None
                    default_known = False
                et = f.get("entityType")
                free = tag is not None and bool(f.get("ignorable")) and not has_explicit and not array
                xc.fields.append(XField(pyname, kind, array, nullable, item_nullable, struct, tag, has_explicit, default,
                                        default_known, ENTITY_TYPES[et][0] if et else None, f["name"], free))
                if kind == "struct":
                    if "fields" in f:
                        build(struct, f["fields"], False)
                    else:
                        build(struct, commons[struct]["fields"], False)

        build(defn["name"], defn["fields"], True)
        out.append(mod)
    return out


def header_module(h: tuple[str, int]) -> str:
    return f"kio.schema.{h[0]}.v{h[1]}.header"


PY_TYPES = {
    "int8": "kio.static.primitive.i8", "int16": "kio.static.primitive.i16", "int32": "kio.static.primitive.i32",
    "int64": "kio.static.primitive.i64", "uint16": "kio.static.primitive.u16", "uint32": "kio.static.primitive.u32",
    "uint64": "kio.static.primitive.u64", "float64": "kio.static.primitive.f64", "bool": "builtins.bool",
    "string": "builtins.str", "bytes": "builtins.bytes", "records": "kio.static.primitive.Records", "uuid": "uuid.UUID",
    "error_code": "kio.schema.errors.ErrorCode", "timedelta_i32": "kio.static.primitive.i32Timedelta",
    "timedelta_i64": "kio.static.primitive.i64Timedelta", "datetime_i64": "kio.static.primitive.TZAware",
}


def expected_annotation(modname: str, f: XField) -> str:
    if f.kind == "struct":
        inner = f"{modname}.{f.struct}"
    elif f.entity_type:
        inner = f"kio.schema.types.{f.entity_type}"
    else:
        inner = PY_TYPES[f.kind]
    if f.array:
        if f.item_nullable:
            inner += " | None"
        s = f"tuple[{inner}, ...]"
        return s + " | None" if f.nullable else s
    return inner + " | None" if f.nullable else inner
