"""Dump a canonical, JSON-able description of an importable kio.schema package.

Run as a child process:  PYTHONPATH=<src root>:/verif KV_REPO=<tree root> python -m kv.dumpschema <out.json>
(the kio that gets imported is whichever comes first on PYTHONPATH).
"""

from __future__ import annotations

import dataclasses
import importlib
import json
import os
import sys
import types
import typing


def canon_type(t) -> str:
    origin = typing.get_origin(t)
    if origin is types.UnionType or origin is typing.Union:
        return " | ".join(canon_type(a) for a in typing.get_args(t))
    if origin is tuple:
        return "tuple[" + ", ".join("..." if a is Ellipsis else canon_type(a) for a in typing.get_args(t)) + "]"
    if t is type(None):
        return "None"
    if isinstance(t, type):
        return f"{t.__module__}.{t.__qualname__}"
    return repr(t)


def class_dump(cls) -> dict:
    fields = []
    for f in dataclasses.fields(cls):
        has_default = f.default is not dataclasses.MISSING
        fields.append({
            "name": f.name,
            "type": canon_type(f.type),
            "kafka_type": f.metadata.get("kafka_type"),
            "tag": f.metadata.get("tag"),
            "metadata_keys": sorted(f.metadata),
            "has_default": has_default,
            "default": repr(f.default) if has_default else None,
            "default_type": canon_type(type(f.default)) if has_default else None,
            "default_factory": f.default_factory is not dataclasses.MISSING,
            # per-field dataclass options: they decide what takes part in __init__, repr, eq and hash
            "options": {"init": f.init, "repr": f.repr, "hash": f.hash, "compare": f.compare, "kw_only": f.kw_only},
        })
    p = cls.__dataclass_params__
    hs = getattr(cls, "__header_schema__", None)
    return {
        "fields": fields,
        "classvars": {
            "__type__": getattr(getattr(cls, "__type__", None), "name", None),
            "__version__": getattr(cls, "__version__", None),
            "__flexible__": getattr(cls, "__flexible__", None),
            "__api_key__": getattr(cls, "__api_key__", None),
            "__header_schema__": f"{hs.__module__}.{hs.__qualname__}" if hs is not None else None,
        },
        "params": {"frozen": p.frozen, "eq": p.eq, "order": p.order, "unsafe_hash": p.unsafe_hash,
                   "kw_only": getattr(p, "kw_only", None), "slots": "__slots__" in vars(cls),
                   "match_args": getattr(p, "match_args", None)},
        "bases": [canon_type(b) for b in cls.__bases__],
    }


def main() -> None:
    out_path = sys.argv[1]
    from kv import describe as D

    import kio

    doc = {"kio_file": kio.__file__, "classes": {}, "modules": {}, "packages": {}, "types": {}, "errors": [], "index": {},
           "import_errors": []}
    for api, v, t, modname in D.walk_version_modules():
        try:
            mod = importlib.import_module(modname)
        except Exception as e:
            doc["import_errors"].append([modname, f"{type(e).__name__}: {e}"])
            continue
        names = []
        for c in D.module_classes(modname):
            doc["classes"][f"{modname}:{c.__qualname__}"] = class_dump(c)
            names.append(c.__qualname__)
        doc["modules"][modname] = {"classes": names}
        pkg = modname.rsplit(".", 1)[0]
        try:
            p = importlib.import_module(pkg)
            doc["packages"].setdefault(pkg, {"all": sorted(getattr(p, "__all__", ()))})
        except Exception as e:
            doc["import_errors"].append([pkg, f"{type(e).__name__}: {e}"])
    try:
        tmod = importlib.import_module("kio.schema.types")
        for name, obj in vars(tmod).items():
            if isinstance(obj, type) and obj.__module__ == tmod.__name__:
                doc["types"][name] = [canon_type(b) for b in obj.__bases__]
    except ModuleNotFoundError:
        pass
    try:
        from kio.schema.errors import ErrorCode

        doc["errors"] = [[e.name, int(e.value), bool(e.retriable)] for e in ErrorCode]
    except Exception as e:
        doc["import_errors"].append(["kio.schema.errors", f"{type(e).__name__}: {e}"])
    try:
        idx = importlib.import_module("kio.schema.index")
        doc["index"] = {
            "api_key_map": {str(k): v for k, v in idx.api_key_map.items()},
            "schema_name_map": {n: {str(v): {t.name: p for t, p in tm.items()} for v, tm in vm.items()}
                                for n, vm in idx.schema_name_map.items()},
        }
    except Exception as e:
        doc["import_errors"].append(["kio.schema.index", f"{type(e).__name__}: {e}"])
    with open(out_path, "w") as fh:
        json.dump(doc, fh, default=lambda o: int(o) if isinstance(o, int) else repr(o))


if __name__ == "__main__":
    main()
