#!/bin/sh
# Offline setup: verify hypothesis under /venv, install atheris from the wheelhouse into .deps
cd "$(dirname "$0")" || exit 1
/venv/bin/python -c "import hypothesis" 2>/dev/null || \
  /venv/bin/pip install -q --no-index --find-links /opt/veriftools/wheels hypothesis || exit 1
mkdir -p .deps evidence replays
if ! PYTHONPATH=.deps /venv/bin/python -c "import atheris" 2>/dev/null; then
  /venv/bin/pip install -q --no-index --find-links /opt/veriftools/wheels --target .deps atheris \
    || echo "setup: atheris not installable; C10 thorough runs without the coverage-guided stage"
fi
/venv/bin/python -m compileall -q kv >/dev/null 2>&1
/venv/bin/python -c "import kio, hypothesis; print('setup ok: kio', kio.__file__, 'hypothesis', hypothesis.__version__)"
