#!/usr/bin/env python3
"""Regenerate seeded/README.md from seeded/*/meta.json."""
import json, os, glob
ROOT = os.path.dirname(os.path.dirname(os.path.abspath(__file__)))
head = """# Seeded changes

Each directory holds a change to Aiven-Open/kio written by an independent sub-agent that was given only the text of one
property and a scratch git worktree (nothing from /verif): `patch.diff` (apply with `git -C /repo apply`), the agent's
demonstration script (fails with the change, passes without), its notes, and `meta.json` (property, what it needs in order to
manifest, what was confirmed). Every change keeps the pinned test suite green (2202/2202 stable tests).

Re-evaluate one with `tools/seed_eval.py <name> [--tier quick|thorough] [--skip-tests]` (applies the patch to /repo, runs the
suite, the demo and the check, reverts /repo).

| name | property | change | needs | caught by |
|---|---|---|---|---|
"""
rows = []
for p in sorted(glob.glob(os.path.join(ROOT, "seeded", "*", "meta.json"))):
    m = json.load(open(p))
    c = m.get("confirmed", {})
    caught = f"{c.get('caught_by', '?')} {c.get('tier', '')}: {c.get('signature', '')}"
    if c.get("note"):
        caught += " -- " + c["note"]
    esc = lambda t: str(t).replace("|", "\\|").replace("\n", " ")
    rows.append(f"| `{m['name']}` | {esc(m['property'])} | {esc(m['what'])} | {esc(m['needs_to_manifest'])} | {esc(caught)} |")
open(os.path.join(ROOT, "seeded", "README.md"), "w").write(head + "\n".join(rows) + "\n")
print(len(rows), "rows")
