#!/venv/bin/python
"""Run the repository's pinned suite minus the always-failing Docker/Java tests (16 workers)
and compare the set of passing test ids with BASELINE.json's stable_pass list.
usage: tools/run_baseline.py [repo_dir]   -> exit 0 iff every stable_pass test passed."""
import json, os, subprocess, sys, tempfile
import xml.etree.ElementTree as ET

repo = sys.argv[1] if len(sys.argv) > 1 else "/repo"
base = json.load(open("/root/.vp/BASELINE.json"))
want = set(base["stable_pass"])
with tempfile.TemporaryDirectory() as td:
    xml = os.path.join(td, "j.xml")
    env = dict(os.environ)
    env.pop("PYTHONPATH", None)
    if repo != "/repo":
        env["PYTHONPATH"] = os.path.join(repo, "src")
    p = subprocess.run(
        ["/venv/bin/python", "-m", "pytest", "-q", "-p", "no:cacheprovider", "--timeout=900",
         "--continue-on-collection-errors", "-k", "not _java", "-n", "16", f"--junitxml={xml}"],
        cwd=repo, env=env, capture_output=True, text=True)
    tail = p.stdout.strip().splitlines()[-3:]
    passed = set()
    for tc in ET.parse(xml).getroot().iter("testcase"):
        if not any(ch.tag in ("failure", "error", "skipped") for ch in tc):
            passed.add(f"{tc.get('classname')}::{tc.get('name')}")
missing = sorted(want - passed)
print("\n".join(tail))
print(f"stable_pass={len(want)} passed_now={len(passed)} missing={len(missing)}")
for m in missing[:40]:
    print("  MISSING", m)
sys.exit(1 if missing else 0)
