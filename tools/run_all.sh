#!/bin/sh
# usage: tools/run_all.sh [quick|thorough]  -- runs every registered check on the current /repo tree, validates evidence
cd "$(dirname "$0")/.." || exit 2
tier="${1:-quick}"
test -z "$(git -C /repo status --porcelain --untracked-files=no)" || { echo "/repo has uncommitted changes"; exit 2; }
rc=0
for p in C01 C02 C03 C04 C05 C06 C07 C08 C09 C10 C11 C12 C13 C14 C15 C16 C17 C18 C19; do
  ./check $p "$tier" > /tmp/run_all_$p.out 2>&1; c=$?
  tail -1 /tmp/run_all_$p.out | cut -c1-160
  grep -c "^KNOWN-FINDING" /tmp/run_all_$p.out | sed "s/^/   known-finding lines: /" | grep -v ": 0"
  [ $c -ne 0 ] && { rc=1; echo "   EXIT $c"; grep -E "VIOLATION|HARNESS" /tmp/run_all_$p.out | head -5; }
  rm -f /tmp/run_all_$p.out
done
python3-vt - <<'PY'
import json, jsonschema, glob
s = json.load(open('/root/.vp/EVIDENCE.schema.json'))
m = json.load(open('MANIFEST.json'))
jsonschema.validate(m, json.load(open('/root/.vp/MANIFEST.schema.json')))
for c in m['checks']:
    e = json.load(open(c['evidence_file']))
    jsonschema.validate(e, s)
    assert e['level'] == c['level_claimed']['category'], (c['property_id'], e['level'])
print("manifest and", len(m['checks']), "evidence files valid")
PY
exit $rc
