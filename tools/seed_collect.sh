#!/bin/sh
# usage: tools/seed_collect.sh <ID> <worktree> <name>   -- copies patch/demo/notes of a sub-agent's change into seeded/<name>
set -e
id="$1"; wt="$2"; name="$3"
d="$(dirname "$0")/../seeded/$name"; mkdir -p "$d"
git -C "$wt" add -N -- src codegen tests 2>/dev/null || true   # so that files the change ADDS are part of the diff
git -C "$wt" diff -- src codegen tests > "$d/patch.diff"
cp "$wt/demo_$id.py" "$d/demo_$id.py"
[ -f "$wt/SEED_NOTES.md" ] && cp "$wt/SEED_NOTES.md" "$d/SEED_NOTES.md"
echo "collected $name: $(wc -l < "$d/patch.diff") diff lines"
