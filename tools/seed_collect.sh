#!/bin/sh
# usage: tools/seed_collect.sh <ID> <worktree> <name>   -- copies patch/demo/notes of a sub-agent's change into seeded/<name>
set -e
id="$1"; wt="$2"; name="$3"
d="$(dirname "$0")/../seeded/$name"; mkdir -p "$d"
git -C "$wt" diff > "$d/patch.diff"
cp "$wt/demo_$id.py" "$d/demo_$id.py"
[ -f "$wt/SEED_NOTES.md" ] && cp "$wt/SEED_NOTES.md" "$d/SEED_NOTES.md"
echo "collected $name: $(wc -l < "$d/patch.diff") diff lines"
