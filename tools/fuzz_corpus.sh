#!/bin/sh
# Build / refresh the committed libFuzzer corpus for C10: 16 shards x <seconds> of atheris, then merge-minimise.
# usage: tools/fuzz_corpus.sh [seconds]     (run on the UNCHANGED tree only)
cd "$(dirname "$0")/.." || exit 2
secs="${1:-300}"
export PYTHONHASHSEED=0 PYTHONPATH="$PWD:$PWD/.deps" PYTHONDONTWRITEBYTECODE=1
work=$(mktemp -d /tmp/kv-fuzzcorpus-XXXX)
for i in $(seq 0 15); do
  mkdir -p "$work/s$i"
  /venv/bin/python -m kv.fuzz_c10 $i 16 "$work/s$i" -max_total_time=$secs -seed=$((1000+i)) -max_len=512 -timeout=30 -rss_limit_mb=4096 -verbosity=0 > "$work/s$i/log" 2>&1 &
done
wait
mkdir -p corpus/C10-fuzz
for i in $(seq 0 15); do
  dst=$(printf "corpus/C10-fuzz/shard%02dof16" $i)
  mkdir -p "$work/m$i/merged"
  [ -d "$dst" ] && cp "$dst"/* "$work/s$i/corpus/" 2>/dev/null
  /venv/bin/python -m kv.fuzz_c10 $i 16 "$work/m$i" -merge=1 "$work/m$i/merged" "$work/s$i/corpus" > "$work/m$i/log" 2>&1
  rm -rf "$dst"; mkdir -p "$dst"; cp "$work/m$i/merged"/* "$dst"/ 2>/dev/null
done
du -sh corpus/C10-fuzz
echo "findings:"; cat "$work"/s*/stats.json | /venv/bin/python -c "
import sys,json
tot=0
for line in sys.stdin.read().replace('}{','}\n{').splitlines():
    d=json.loads(line); tot+=d['stats']['execs']
    for k,v in d['findings'].items(): print(' ',k,v['class'],v['input'][:80])
print('total execs',tot)"
echo "$work"
