#!/venv/bin/python
"""Evaluate a seeded breakage kept under /verif/seeded/<name>/ (patch.diff, demo script, meta.json).

usage: tools/seed_eval.py <name> [--tier quick|thorough] [--skip-tests] [--props C01,C02]
Applies patch.diff to /repo (git apply), optionally confirms that the pinned suite still passes and the demo fails,
runs the checks named in meta.json["property"] (or --props), reverts /repo (git checkout -- . ; git clean of new files
named in the patch), and prints one line per check: CAUGHT / MISSED.
"""
import argparse, json, os, subprocess, sys, time
ROOT = os.path.dirname(os.path.dirname(os.path.abspath(__file__)))
ap = argparse.ArgumentParser()
ap.add_argument("name")
ap.add_argument("--tier", default="quick")
ap.add_argument("--skip-tests", action="store_true")
ap.add_argument("--props")
args = ap.parse_args()
d = os.path.join(ROOT, "seeded", args.name)
meta = json.load(open(os.path.join(d, "meta.json")))
props = args.props.split(",") if args.props else ([meta["property"]] if isinstance(meta["property"], str) else meta["property"])

def sh(cmd, **kw):
    return subprocess.run(cmd, shell=True, capture_output=True, text=True, **kw)

assert sh("git -C /repo status --porcelain").stdout.strip() == "", "repo dirty"
r = sh(f"git -C /repo apply --whitespace=nowarn {d}/patch.diff")
if r.returncode != 0:
    print("patch does not apply:", r.stderr)
    sys.exit(2)
try:
    if not args.skip_tests:
        t = sh(f"{ROOT}/tools/run_baseline.py")
        print("test suite with the change:", "pass" if t.returncode == 0 else "FAIL", t.stdout.strip().splitlines()[-1])
        demo = meta.get("demo")
        if demo:
            dr = sh(f"/venv/bin/python {d}/{demo}", cwd="/repo", env={**os.environ, "PYTHONPATH": "/repo/src"})
            print(f"demo with the change: exit {dr.returncode}")
    for p in props:
        t0 = time.time()
        c = sh(f"./check {p} {args.tier}", cwd=ROOT)
        sigs = [l.strip() for l in c.stdout.splitlines() if l.strip().startswith("signature:")]
        status = "CAUGHT" if c.returncode == 1 and "VIOLATION" in c.stdout else ("HARNESS-ERR" if c.returncode == 2 else "MISSED")
        print(f"{args.name:24s} {p} {args.tier:8s} {status:8s} {time.time()-t0:6.1f}s {sigs[:3]}")
        if status == "HARNESS-ERR":
            print(c.stderr[-600:])
finally:
    sh("git -C /repo checkout -- .")
    sh("git -C /repo clean -fdq -- src codegen tests")
    assert sh("git -C /repo status --porcelain").stdout.strip() == "", "repo still dirty"
