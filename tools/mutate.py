#!/venv/bin/python
"""Sensitivity harness: apply a textual mutant to /repo, run ./check <ID> quick, revert.

usage: tools/mutate.py [--tier quick] [--only M01,M02] [--props C06]
Mutants live in tools/mutants.py: dict id -> (props, file, old, new[, count]).
A mutant is 'caught' iff the check exits 1 with a VIOLATION line.
"""
import argparse, os, subprocess, sys, time
ROOT = os.path.dirname(os.path.dirname(os.path.abspath(__file__)))
sys.path.insert(0, ROOT)
from tools.mutants import MUTANTS  # noqa: E402

ap = argparse.ArgumentParser()
ap.add_argument("--tier", default="quick")
ap.add_argument("--only")
ap.add_argument("--props")
ap.add_argument("--baseline", action="store_true", help="also run the repo test suite on the mutant")
ap.add_argument("--benign", action="store_true", help="run the property-PRESERVING changes of tools/benign.py: every check must stay quiet")
args = ap.parse_args()
if args.benign:
    from tools.benign import BENIGN  # noqa: E402

    MUTANTS = {k: (v[0], v[1]) for k, v in BENIGN.items()}
only = set(args.only.split(",")) if args.only else None
props = set(args.props.split(",")) if args.props else None

def sh(cmd, **kw):
    return subprocess.run(cmd, shell=True, capture_output=True, text=True, **kw)

REPO = os.environ.get("KV_REPO", "/repo")  # the checks honour KV_REPO too, so a snapshot can be mutated in the background
assert sh(f"git -C {REPO} status --porcelain --untracked-files=no").stdout.strip() == "", "repo dirty"
results = []
for mid, m in MUTANTS.items():
    if only and mid not in only:
        continue
    mprops = m[0]
    if props and not (set(mprops) & props):
        continue
    edits = m[1]
    if isinstance(edits, str):
        edits = [(m[1], m[2], m[3])]
    try:
        for f, old, new in edits:
            path = os.path.join(REPO, f)
            src = open(path).read()
            if src.count(old) != 1:
                raise SystemExit(f"{mid}: pattern occurs {src.count(old)} times in {f}")
            open(path, "w").write(src.replace(old, new))
        base = ""
        if args.baseline:
            r = sh(f"{ROOT}/tools/run_baseline.py")
            base = " tests:" + ("pass" if r.returncode == 0 else "FAIL")
        for p in mprops:
            if props and p not in props:
                continue
            t = time.time()
            try:
                r = sh(f"KV_WATCHDOG_S=600 ./check {p} {args.tier}", cwd=ROOT, timeout=700)
            except subprocess.TimeoutExpired:
                sh("pkill -9 -f 'kv[.]run'")
                print(f"{mid:28s} {p} TIMEOUT", flush=True)
                results.append((mid, p, "TIMEOUT"))
                continue
            viol = [l for l in r.stdout.splitlines() if l.startswith("VIOLATION")]
            sigs = [l.strip() for l in r.stdout.splitlines() if l.strip().startswith("signature:")]
            status = "CAUGHT" if r.returncode == 1 and viol else ("HARNESS-ERR" if r.returncode == 2 else "MISSED")
            if args.benign:
                status = {"CAUGHT": "FALSE-ALARM", "MISSED": "QUIET"}.get(status, status)
            print(f"{mid:28s} {p} {status:11s} {time.time()-t:5.1f}s{base} {sigs[:2]}", flush=True)
            if status == "HARNESS-ERR":
                print(r.stderr[-800:])
            results.append((mid, p, status))
    finally:
        sh(f"git -C {REPO} checkout -- .")
good = "QUIET" if args.benign else "CAUGHT"
missed = [r for r in results if r[2] != good]
print(f"{len(results) - len(missed)}/{len(results)} {good.lower()}")
sys.exit(1 if missed else 0)
