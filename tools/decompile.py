#!/venv/bin/python
"""One-off tool: reconstruct Kafka-style JSON message definitions from the kio.schema package.

The pinned upstream definitions (schema/3.9.0/*.json) are not available offline, so the fixture
/verif/fixtures/defs-3.9.0 was produced ONCE by this tool from the baseline tree and accepted only after
`generator(fixture) == baseline package` held class by class (see kv/props/c04.py).  Checks never run this tool.

usage: tools/decompile.py <outdir>
"""

from __future__ import annotations

import ast
import builtins
import collections
import dataclasses
import datetime
import json
import os
import sys

ROOT = os.path.dirname(os.path.dirname(os.path.abspath(__file__)))
sys.path.insert(0, ROOT)
sys.path.insert(0, "/repo")

from kv import describe as D  # noqa: E402

TIMEDELTA_NAMES = ["timeoutMs", "TimeoutMs", "ThrottleTimeMs", "MaxWaitMs", "SessionLifetimeMs", "TransactionTimeoutMs",
                   "MaxLifetimeMs", "SessionTimeoutMs", "RebalanceTimeoutMs", "ExpiryTimePeriodMs", "RenewPeriodMs",
                   "RetentionTimeMs", "HeartbeatIntervalMs", "PushIntervalMs"]
DATETIME_NAMES = ["IssueTimestampMs", "ExpiryTimestampMs", "MaxTimestampMs", "TransactionStartTimeMs", "LogAppendTimeMs"]
ERROR_NAMES = ["ErrorCode", "PartitionErrorCode"]
_BUILTINS = set(dir(builtins))


def camel(py_name: str) -> str:
    base = py_name
    if base.endswith("_") and base[:-1] in _BUILTINS:
        base = base[:-1]
    return "".join(p[:1].upper() + p[1:] for p in base.split("_"))


def json_name(py_name: str, kind: str) -> tuple[str, str | None]:
    """-> (JSON field name, JSON base type override or None)."""
    from codegen.case import to_snake_case

    if kind in ("timedelta_i32", "timedelta_i64"):
        for n in TIMEDELTA_NAMES[1:]:
            if to_snake_case(n.removesuffix("Ms")) == py_name:
                return n, "int32" if kind == "timedelta_i32" else "int64"
        raise SystemExit(f"no special timedelta name for {py_name}")
    if kind == "datetime_i64":
        for n in DATETIME_NAMES:
            if to_snake_case(n.removesuffix("Ms")) == py_name:
                return n, "int64"
        raise SystemExit(f"no special datetime name for {py_name}")
    if kind == "error_code":
        for n in ERROR_NAMES:
            if to_snake_case(n) == py_name:
                return n, "int16"
        raise SystemExit(f"no special error code name for {py_name}")
    name = camel(py_name)
    if to_snake_case(name) != py_name:
        raise SystemExit(f"cannot invert naming convention for {py_name!r}: {name!r} -> {to_snake_case(name)!r}")
    return name, None


def vrange(vs: list[int], open_top: int | None) -> str:
    vs = sorted(vs)
    assert vs == list(range(vs[0], vs[-1] + 1)), vs
    if open_top is not None and vs[-1] == open_top:
        return f"{vs[0]}+"
    return str(vs[0]) if len(vs) == 1 else f"{vs[0]}-{vs[-1]}"


def static_sig(f: D.FieldDesc) -> tuple:
    entity_type = None
    if f.kind != "struct" and getattr(f.pytype, "__module__", "") == "kio.schema.types":
        entity_type = f.pytype.__name__
    return (f.kind, f.array, f.struct.cls.__name__ if f.struct else None, entity_type)


def default_json(f: D.FieldDesc):
    """-> JSON default or the sentinel NO."""
    if not f.has_default:
        return NO
    d = f.default
    if f.array:
        return NO  # () is produced by the generator itself
    if f.kind == "struct":
        return "null" if d is None else NO  # instance defaults come from nested_entity_has_only_defaults
    if d is None:
        return "null"
    if f.kind == "bool":
        return "true" if d else "false"
    if f.kind == "string":
        return str(d)
    if f.kind == "float64":
        return float(d)
    if f.kind in ("timedelta_i32", "timedelta_i64"):
        return str(d // datetime.timedelta(milliseconds=1))
    return str(int(d))


NO = object()


def merge_fields(per_version: dict[int, list[D.FieldDesc]]) -> list[tuple]:
    """Ordered merge of the per-version field lists -> list of keys (name, static_sig)."""
    order: list[tuple] = []
    for v in sorted(per_version):
        prev_idx = -1
        for f in per_version[v]:
            key = (f.name, static_sig(f))
            if key in order:
                prev_idx = order.index(key)
            else:
                order.insert(prev_idx + 1, key)
                prev_idx += 1
    # sanity: every version's list is a subsequence of the merged order
    for v, fl in per_version.items():
        idx = [order.index((f.name, static_sig(f))) for f in fl]
        assert idx == sorted(idx), f"cannot merge field order at v{v}"
    return order


class Family:
    def __init__(self, api: str, etype: str, modules: dict[int, str]):
        self.api, self.etype, self.modules = api, etype, modules
        self.vmax = max(modules)
        self.classes: dict[int, dict[str, D.ClassDesc]] = {}
        for v, mod in modules.items():
            self.classes[v] = {c.__name__: D.describe(c) for c in D.module_classes(mod)}
        self.top = {v: next(cd for cd in cs.values() if cd.cls.__type__.name == etype) for v, cs in self.classes.items()}
        refs = collections.Counter()
        for v, cs in self.classes.items():
            seen = set()
            for cd in cs.values():
                for f in cd.fields:
                    if f.kind == "struct":
                        seen.add((cd.cls.__name__, f.name, f.struct.cls.__name__))
            for _c, _f, s in seen:
                refs[(v, s)] += 1
        self.common = sorted({s for (v, s), n in refs.items() if n > 1})

    def struct_fields(self, name: str) -> tuple[list[dict], list[int]]:
        per_version = {v: list(cs[name].fields) for v, cs in self.classes.items() if name in cs}
        present = sorted(per_version)
        order = merge_fields(per_version)
        out = []
        for key in order:
            fname, sig = key
            occ = {v: next(f for f in fl if (f.name, static_sig(f)) == key) for v, fl in per_version.items()
                   if any((f.name, static_sig(f)) == key for f in fl)}
            vs = sorted(occ)
            kind, array, struct_name, entity_type = sig
            jname, base = json_name(fname, kind)
            any_f = occ[vs[0]]
            if kind == "struct":
                jtype = struct_name
            else:
                jtype = base or kind
            if array:
                jtype = "[]" + jtype
            entry: dict = {"name": jname, "type": jtype, "versions": vrange(vs, present[-1])}
            if not (vs[0] >= present[0] and vs[-1] <= present[-1]):
                raise SystemExit("version bookkeeping")
            nullable_vs = [v for v in vs if (occ[v].nullable if not (occ[v].kind == "uuid" and not occ[v].array) else False)]
            if kind == "uuid":
                nullable_vs = []
            if nullable_vs:
                entry["nullableVersions"] = vrange(nullable_vs, vs[-1])
            tagged_vs = [v for v in vs if occ[v].tag is not None]
            if tagged_vs:
                tags = {occ[v].tag for v in tagged_vs}
                assert len(tags) == 1
                entry["tag"] = tags.pop()
                entry["taggedVersions"] = vrange(tagged_vs, vs[-1])
            defaults = {v: default_json(occ[v]) for v in vs}
            if kind == "uuid" and not array and tagged_vs and all(d == "null" for d in defaults.values()):
                # uuid is always Optional in kio; a tagged uuid gets its None default through `ignorable`
                defaults = {v: NO for v in vs}
                entry["ignorable"] = True
            dset = {json.dumps(d) if d is not NO else "<NO>" for d in defaults.values()}
            if len(dset) != 1:
                # a default that exists only in some versions: e.g. None while nullable -> split is not needed when the
                # non-null default is absent elsewhere only because the field is non-nullable there
                vals = [d for d in defaults.values() if d is not NO]
                if len({json.dumps(d) for d in vals}) == 1 and vals[0] == "null":
                    entry["default"] = "null"
                else:
                    raise SystemExit(f"{self.api}/{self.etype} {name}.{fname}: default varies by version {defaults}")
            elif defaults[vs[0]] is not NO:
                entry["default"] = defaults[vs[0]]
            if entity_type:
                entry["entityType"] = entity_type[0].lower() + entity_type[1:]
            entry["about"] = f"{fname} ({self.api} {self.etype})"
            if kind == "struct" and struct_name not in self.common:
                entry["fields"], _ = self.struct_fields(struct_name)
            out.append(entry)
        return out, present

    def to_json(self) -> dict:
        top_name = self.top[self.vmax].cls.__name__
        doc: dict = {}
        if self.etype in ("request", "response"):
            doc["apiKey"] = int(self.top[self.vmax].cls.__api_key__)
        doc["type"] = self.etype
        doc["name"] = top_name
        versions = sorted(self.modules)
        doc["validVersions"] = vrange(versions, None)
        flex = [v for v in versions if self.top[v].flexible]
        doc["flexibleVersions"] = f"{flex[0]}+" if flex else "none"
        doc["fields"], _ = self.struct_fields(top_name)
        if self.common:
            doc["commonStructs"] = []
            for s in self.common:
                fields, present = self.struct_fields(s)
                doc["commonStructs"].append({"name": s, "versions": vrange(present, self.vmax), "fields": fields})
        return doc


def error_codes_txt() -> str:
    path = os.path.join(D.SCHEMA_ROOT, "errors.py")
    tree = ast.parse(open(path).read())
    cls = next(n for n in tree.body if isinstance(n, ast.ClassDef) and n.name == "ErrorCode")
    lines = []
    body = cls.body
    for i, node in enumerate(body):
        if isinstance(node, ast.Assign) and isinstance(node.value, ast.Tuple) and len(node.value.elts) == 2:
            name = node.targets[0].id
            code = ast.literal_eval(node.value.elts[0])
            retriable = ast.literal_eval(node.value.elts[1])
            msg = "NONE"
            if i + 1 < len(body) and isinstance(body[i + 1], ast.Expr) and isinstance(body[i + 1].value, ast.Constant):
                msg = body[i + 1].value.value
            lines.append(f"{code} {name.upper()} {retriable} {msg}")
    return "\n".join(lines) + "\n"


def main() -> None:
    out = sys.argv[1]
    os.makedirs(out, exist_ok=True)
    fams: dict[tuple[str, str], dict[int, str]] = collections.defaultdict(dict)
    for api, v, t, mod in D.walk_version_modules():
        fams[(api, t)][v] = mod
    for (api, t), modules in sorted(fams.items()):
        fam = Family(api, t, modules)
        doc = fam.to_json()
        fn = doc["name"] + ".json"
        with open(os.path.join(out, fn), "w") as fh:
            fh.write("// Reconstructed from kio.schema (Kafka 3.9.0) by /verif/tools/decompile.py -- not the upstream file.\n")
            json.dump(doc, fh, indent=2)
            fh.write("\n")
    with open(os.path.join(out, "error-codes.txt"), "w") as fh:
        fh.write(error_codes_txt())
    print(f"{len(fams)} definitions written to {out}")


if __name__ == "__main__":
    main()
