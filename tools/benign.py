"""Property-PRESERVING changes to kio: every check must stay quiet on each of them (false-alarm control).
id -> (checks to run, edits)   edits = [(file, old, new), ...]"""
S = "src/kio/serial/"
ALL = ["C01", "C02", "C03", "C05", "C06", "C07", "C10", "C11", "C15", "C19"]
BENIGN = {
    # one write() per varint through a LOCAL buffer (changes the number and size of write calls)
    "varint_single_write_local": (ALL + ["C17", "C18"], [
        (S + "writers.py",
         "    seven_bit_chunk = value & 0b01111111\n    value >>= 7\n\n    while value:\n        # Add 1 as the most significant bit - the indicator that more bits\n        # remain.\n        buffer.write((0b10000000 | seven_bit_chunk).to_bytes(1, \"little\"))\n        seven_bit_chunk = value & 0b01111111\n        value >>= 7\n\n    # Add (implicitly) 0 as the most significant bit - the indicator of the last\n    # 7-bit chunk.\n    buffer.write(seven_bit_chunk.to_bytes(1, \"little\"))",
         "    if value < 0:\n        raise ValueError(\"varints are non-negative\")\n    chunks = bytearray()\n    seven_bit_chunk = value & 0b01111111\n    value >>= 7\n    while value:\n        chunks.append(0b10000000 | seven_bit_chunk)\n        seven_bit_chunk = value & 0b01111111\n        value >>= 7\n    chunks.append(seven_bit_chunk)\n    buffer.write(bytes(chunks))"),
    ]),
    # read_exact tolerates short reads by looping (more read calls on short-reading sources)
    "read_exact_loops": (ALL, [
        (S + "readers.py",
         "    value = buffer.read(num_bytes)\n    if len(value) != num_bytes:\n        raise BufferUnderflow(f\"Expected to read {num_bytes}, got {len(value)}\")\n    return value",
         "    value = buffer.read(num_bytes)\n    while 0 < len(value) < num_bytes:\n        more = buffer.read(num_bytes - len(value))\n        if not more:\n            break\n        value += more\n    if len(value) != num_bytes:\n        raise BufferUnderflow(f\"Expected to read {num_bytes}, got {len(value)}\")\n    return value"),
    ]),
    # a subclass of the documented error with a different message
    "underflow_subclass": (["C01", "C03", "C06", "C10", "C19"], [
        (S + "errors.py", "class BufferUnderflow(DecodeError): ...", "class BufferUnderflow(DecodeError): ...\n\n\nclass ShortRead(BufferUnderflow): ..."),
        (S + "readers.py", "from .errors import BufferUnderflow\n", "from .errors import BufferUnderflow\nfrom .errors import ShortRead\n"),
        (S + "readers.py", "        raise BufferUnderflow(f\"Expected to read {num_bytes}, got {len(value)}\")", "        raise ShortRead(f\"stream ended: wanted {num_bytes} bytes, got {len(value)}\")"),
    ]),
    # reader builds kwargs with a loop and a list of pairs instead of dicts
    "reader_loops_over_pairs": (ALL, [
        (S + "_parse.py",
         "        kwargs = {\n            field.name: field_reader(buffer)\n            for field, field_reader in field_readers.items()\n        }\n",
         "        kwargs = {}\n        for field, field_reader in tuple(field_readers.items()):\n            kwargs[field.name] = field_reader(buffer)\n"),
    ]),
    # tagged section staged in a fresh list and joined (no BytesIO)
    "writer_tag_section_joined": (ALL, [
        (S + "_serialize.py",
         "            write_unsigned_varint(buffer, uvarint(num_tagged_fields))\n            buffer.write(tag_buffer.getvalue())",
         "            staged = tag_buffer.getvalue()\n            write_unsigned_varint(buffer, uvarint(num_tagged_fields))\n            if staged:\n                buffer.write(staged)"),
    ]),
    # index: explicit membership tests instead of catching KeyError
    "index_explicit_membership": (["C08", "C09"], [
        ("src/kio/index.py",
         "    try:\n        return schema_name_map[name][version][entity_type]\n    except KeyError:\n        raise UnknownEntity(",
         "    try:\n        versions = schema_name_map[name]\n        types = versions[version]\n        return types[entity_type]\n    except (KeyError, TypeError):\n        raise UnknownEntity("),
    ]),
    # generator: different docstring / import text, same classes
    "generator_cosmetics": (["C04", "C16"], [
        ("codegen/generate_schema.py", "Generated from ``{schema_repository_source}{schema_source}``.", "Generated from {schema_repository_source}{schema_source} (do not edit)."),
        ("codegen/generate_schema.py", "            class_fields.append(f'    \"\"\"{field.about}\"\"\"\\n')", "            class_fields.append(f'    \"\"\"{field.about.strip()} \"\"\"\\n')"),
    ]),
    # TZAware predicate with exact arithmetic instead of a float timestamp
    "tzaware_exact_arithmetic": (["C01", "C03", "C05", "C11", "C12"], [
        ("src/kio/static/primitive.py",
         "        and dt.microsecond % 1000 == 0\n        and dt.timestamp() >= 0",
         "        and dt.microsecond % 1000 == 0\n        and dt >= datetime.datetime(1970, 1, 1, tzinfo=datetime.UTC)"),
    ]),
    # records: CRC computed incrementally over two slices
    "crc_incremental": (["C17", "C18"], [
        ("src/kio/records/writers.py", "        crc=u32(crc32c.crc32c(post_checksum)),", "        crc=u32(crc32c.crc32c(post_checksum[8:], crc32c.crc32c(post_checksum[:8]))),"),
    ]),
    # a CORRECT memo of field readers (full key): cross-class sharing of pure closures must not alarm C19's order stage
    "field_reader_memo_full_key": (["C01", "C03", "C06", "C10", "C19"], [
        (S + "_parse.py", "def get_field_reader(\n", "@__import__(\"functools\").cache\ndef get_field_reader(\n"),
    ]),
    # read_exact reads in chunks of at most 64 KiB and accumulates (allocation follows the data actually present)
    "read_exact_chunked": (["C01", "C03", "C06", "C07", "C10", "C19"], [
        (S + "readers.py",
         "    value = buffer.read(num_bytes)\n    if len(value) != num_bytes:\n        raise BufferUnderflow(f\"Expected to read {num_bytes}, got {len(value)}\")\n    return value",
         "    if num_bytes <= 65536:\n        value = buffer.read(num_bytes)\n    else:\n        parts = []\n        have = 0\n        while have < num_bytes:\n            part = buffer.read(min(65536, num_bytes - have))\n            if not part:\n                break\n            parts.append(part)\n            have += len(part)\n        value = b\"\".join(parts)\n    if len(value) != num_bytes:\n        raise BufferUnderflow(f\"Expected to read {num_bytes}, got {len(value)}\")\n    return value"),
    ]),
    # the staged tagged section is handed to the sink as a memoryview of a private, never reused bytes object
    "writer_tag_section_memoryview": (["C01", "C02", "C07", "C19"], [
        (S + "_serialize.py",
         "            buffer.write(tag_buffer.getvalue())",
         "            buffer.write(memoryview(tag_buffer.getvalue()))"),
    ]),
}
