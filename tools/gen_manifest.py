#!/venv/bin/python
"""Regenerates MANIFEST.json from the table below (keeps it schema-valid)."""
import json, os, sys
ROOT = os.path.dirname(os.path.dirname(os.path.abspath(__file__)))
sys.path.insert(0, ROOT)
from kv.manifest_table import CHECKS, NOT_APPLICABLE, NOTES  # noqa: E402

props = [json.loads(l)["id"] for l in open(os.path.join(ROOT, "properties.jsonl"))]
checks = []
for pid in props:
    if pid not in CHECKS:
        continue
    c = CHECKS[pid]
    checks.append({
        "property_id": pid,
        "quick_cmd": f"./check {pid} quick",
        "thorough_cmd": f"./check {pid} thorough",
        "evidence_file": f"evidence/{pid}.json",
        "replay_cmd_template": f"./check {pid} --replay {{path}}",
        "engine": c.get("engine", "kv"),
        "level_claimed": {"category": c["level"], "text": c["text"], "design_ref": c["design_ref"]},
        "level_note": c["note"],
        "technique": c["technique"],
    })
na = [{"property_id": p, "reason": NOT_APPLICABLE.get(p, "check not built yet in this session")} for p in props if p not in CHECKS]
doc = {
    "version": 1,
    "setup_cmd": "./setup.sh",
    "hooks": {
        "guard": "KIO_VERIF",
        "enable": "no hooks: all observation points are public call boundaries (entity_reader/entity_writer, the stream objects passed in, sys.settrace installed by the harness); KIO_VERIF is unused",
        "baseline_off_cmd": "cd /repo && /venv/bin/python -m pytest -ra -q -p no:cacheprovider --timeout=900 --continue-on-collection-errors",
        "source_commits": [],
        "add_only": True,
    },
    "engines": [
        {"name": "kv", "path": "kv/", "serves_properties": [c["property_id"] for c in checks],
         "kind_free_text": "Hypothesis-driven generated-input search with an independent reference codec (kv/refcodec.py, kv/refbatch.py), exhaustive enumeration of finite factors, tree-level failure minimisation, JSON replay files"},
    ],
    "checks": checks,
    "notes": NOTES,
    "not_applicable": na,
}
json.dump(doc, open(os.path.join(ROOT, "MANIFEST.json"), "w"), indent=1)
print(f"{len(checks)} checks, {len(na)} not claimed")
try:
    import jsonschema
    jsonschema.validate(doc, json.load(open("/root/.vp/MANIFEST.schema.json")))
    print("schema ok")
except ImportError:
    print("jsonschema not importable here; validate with python3-vt")
